(* C06 -- optimality, the special cases (self, translation) and Trajectory.superpose, over R. *)
From Coq Require Import Reals List Lra Lia.
Import ListNotations.
Require Import MD.Gen.RmsdFormulas MD.Rmsd.Model MD.Rmsd.AlgebraR MD.Rmsd.Quaternion.
Import RM.
Local Open Scope R_scope.

(* optimal_given_top for ALL proper rotations and translations *)
Lemma optimal_all_rotations : forall l lam, centred l -> dominates (inp_of l lam) lam ->
  forall r t, proper_rotation r -> Ga l + Gb l - 2 * lam <= resid r t l.
Proof.
  intros l lam Hc Hd r t Hr. destruct (rotation_is_quaternion r Hr) as (a & b & c & d & U & E). rewrite E.
  apply optimal_given_top; assumption.
Qed.

(* Headline.  For centred conformations: IF the value lam returned by the root solver is a root of the
   characteristic polynomial the code builds and dominates the Rayleigh quotient of K (i.e. is its
   largest eigenvalue) and the adjugate column is above the code's threshold, THEN the rotation the code
   returns is a proper rotation, it attains the residual Ga+Gb-2 lam, no proper rotation and translation
   does better, and the returned msd is that minimal residual divided by the number of atoms.
   PARTIAL: the two hypotheses on lam are not proved for DirectSolve (closed-form quartic in floating
   point; no spectral theorem in the installed libraries). *)
Theorem rmsd_optimal_partial : forall l lam, let i := inp_of l lam in
  l <> [] -> centred l -> charpoly i lam = 0 -> dominates i lam -> ~ Rf.fallback i ->
  proper_rotation (out_rot i) /\
  resid (out_rot i) vzero l = Ga l + Gb l - 2 * lam /\
  (forall r t, proper_rotation r -> resid (out_rot i) vzero l <= resid r t l) /\
  msd_code l lam = resid (out_rot i) vzero l / natoms l.
Proof.
  intros l lam i Hl Hc Hroot Hd Hnf.
  pose proof (code_attains l lam Hroot Hnf) as A. fold i in A.
  split; [apply rot_proper|]. split; [exact A|]. split.
  - intros r t Hr. rewrite A. apply optimal_all_rotations; assumption.
  - rewrite A. apply msd_value; [|exact Hl]. rewrite <- A. apply resid_nonneg.
Qed.

(* every root whose adjugate column is usable gives a rotation with residual Ga+Gb-2 lam: the largest
   root gives the smallest residual among these critical rotations, and msd >= 0 *)
Lemma critical_rotations : forall l lam, let i := inp_of l lam in
  charpoly i lam = 0 -> ~ Rf.fallback i -> 0 <= Ga l + Gb l - 2 * lam.
Proof. intros l lam i Hroot Hnf. rewrite <- (code_attains l lam Hroot Hnf). apply resid_nonneg. Qed.

(* --- self comparison ------------------------------------------------------------------------------ *)
Definition self (xs : list v3) : list apair := map (fun x => (x, x)) xs.
Lemma Mab_self_sym : forall a b xs, Mab a b (self xs) = Mab b a (self xs).
Proof. intros. unfold Mab, self. induction xs as [|x t IH]; cbn [map sumf fst snd]; [reflexivity | rewrite IH; ring]. Qed.
Lemma Ga_self_trace : forall xs, Ga (self xs) = Mab vx vx (self xs) + Mab vy vy (self xs) + Mab vz vz (self xs).
Proof. intros. unfold Ga, Mab, self, vnorm2. induction xs as [|x t IH]; cbn [map sumf fst snd]; [ring | rewrite IH; ring]. Qed.
Lemma Gb_self : forall xs, Gb (self xs) = Ga (self xs).
Proof. intros. unfold Ga, Gb, self. induction xs as [|x t IH]; cbn [map sumf fst snd]; [reflexivity | rewrite IH; ring]. Qed.

(* self_zero: against itself lam = G is a root, dominates every Rayleigh quotient, and the msd is 0 *)
Theorem self_zero : forall xs, let l := self xs in let i := inp_of l (Ga l) in
  charpoly i (Ga l) = 0 /\ dominates i (Ga l) /\ msd_code l (Ga l) = 0.
Proof.
  intros xs. cbv zeta. split; [|split].
  - rewrite Ga_self_trace. unfold charpoly, inp_of, Rf.mkin. gen_unfold. proj.
    rewrite (Mab_self_sym vy vx), (Mab_self_sym vz vx), (Mab_self_sym vz vy). ring.
  - intros a b c d U. pose proof (eigen_upper_bound_R (self xs) (Ga (self xs)) a b c d U) as B.
    rewrite Gb_self in B. lra.
  - unfold msd_code. unfold inp_of, Rf.mkin. gen_unfold. proj. rewrite Gb_self.
    replace ((Ga (self xs) + Ga (self xs) - 2 * Ga (self xs)) / natoms (self xs)) with 0 by (unfold Rdiv; ring).
    split_ifs; reflexivity.
Qed.

(* --- centring: translation invariance --------------------------------------------------------------- *)
Lemma vsum_shift : forall t xs, vsum (map (vadd t) xs) = vadd (vscale (INR (length xs)) t) (vsum xs).
Proof.
  intros [[t0 t1] t2] xs. induction xs as [|[[x0 x1] x2] r IH].
  - cbn. unfold vadd, vscale, vzero, vx, vy, vz. cbn. f_equal; [f_equal|]; ring.
  - cbn [map vsum fold_right]. change (fold_right vadd vzero (map (vadd (t0, t1, t2)) r)) with (vsum (map (vadd (t0, t1, t2)) r)).
    rewrite IH. change (length ((x0, x1, x2) :: r)) with (S (length r)). rewrite S_INR.
    destruct (vsum r) as [[s0 s1] s2] eqn:Es. change (fold_right vadd vzero r) with (vsum r). rewrite Es.
    unfold vadd, vscale, vx, vy, vz. cbn [fst snd]. f_equal; [f_equal|]; ring.
Qed.
Lemma mean_shift : forall t xs, xs <> [] -> mean (map (vadd t) xs) = vadd t (mean xs).
Proof.
  intros t xs Hne. unfold mean. rewrite map_length, vsum_shift.
  assert (N : INR (length xs) <> 0) by (destruct xs; [congruence | apply not_0_INR; cbn; lia]).
  destruct t as [[t0 t1] t2], (vsum xs) as [[s0 s1] s2]. unfold vadd, vscale, vx, vy, vz. cbn [fst snd].
  f_equal; [f_equal|]; field; exact N.
Qed.
(* translation_invariant: the centred coordinates, hence M, G, the polynomial, the msd and the rotation,
   do not change when either conformation is translated *)
Theorem translation_invariant : forall t xs, xs <> [] -> centre (map (vadd t) xs) = centre xs.
Proof.
  intros t xs Hne. unfold centre. rewrite (mean_shift t xs Hne), map_map. apply map_ext. intros x.
  destruct t as [[t0 t1] t2], x as [[x0 x1] x2], (mean xs) as [[m0 m1] m2]. unfold vadd, vsub, vx, vy, vz. cbn [fst snd].
  f_equal; [f_equal|]; ring.
Qed.
Corollary pairs_translation_invariant : forall t u al rf, al <> [] -> rf <> [] ->
  pairs_of (map (vadd t) al) (map (vadd u) rf) = pairs_of al rf.
Proof. intros. unfold pairs_of. rewrite !translation_invariant by assumption. reflexivity. Qed.

(* the centred pairs are centred *)
Lemma sumf_combine_fst : forall (g : v3 -> R) l1 l2, length l1 = length l2 ->
  sumf (fun p => g (fst p)) (combine l1 l2) = fold_right (fun x s => g x + s) 0 l1.
Proof.
  intros g l1. induction l1 as [|x t IH]; intros [|y l2] H; cbn in H; try discriminate; [reflexivity|].
  cbn [combine sumf fold_right fst]. rewrite IH by lia. reflexivity.
Qed.
Lemma sumf_combine_snd : forall (g : v3 -> R) l1 l2, length l1 = length l2 ->
  sumf (fun p => g (snd p)) (combine l1 l2) = fold_right (fun x s => g x + s) 0 l2.
Proof.
  intros g l1. induction l1 as [|x t IH]; intros [|y l2] H; cbn in H; try discriminate; [reflexivity|].
  cbn [combine sumf fold_right snd]. rewrite IH by lia. reflexivity.
Qed.
Lemma fold_comp_sub : forall (c : v3 -> R) (m : v3) xs,
  (forall u v, c (vsub u v) = c u - c v) ->
  fold_right (fun x s => c x + s) 0 (map (fun x => vsub x m) xs) = fold_right (fun x s => c x + s) 0 xs - INR (length xs) * c m.
Proof.
  intros c m xs Hc. induction xs as [|x t IH]; [cbn; ring|].
  cbn [map fold_right]. rewrite IH, Hc. change (length (x :: t)) with (S (length t)). rewrite S_INR. ring.
Qed.
Lemma fold_comp_vsum : forall (c : v3 -> R) xs, c vzero = 0 -> (forall u v, c (vadd u v) = c u + c v) ->
  fold_right (fun x s => c x + s) 0 xs = c (vsum xs).
Proof.
  intros c xs H0 Ha. induction xs as [|x t IH]; [cbn; rewrite H0; reflexivity|].
  cbn [fold_right vsum]. change (fold_right vadd vzero t) with (vsum t). rewrite Ha, IH. reflexivity.
Qed.
Lemma centre_sum_zero : forall (c : v3 -> R) xs, xs <> [] ->
  c vzero = 0 -> (forall u v, c (vadd u v) = c u + c v) -> (forall u v, c (vsub u v) = c u - c v) ->
  (forall s v, c (vscale s v) = s * c v) ->
  fold_right (fun x s => c x + s) 0 (centre xs) = 0.
Proof.
  intros c xs Hne H0 Ha Hs Hm. unfold centre. rewrite (fold_comp_sub c (mean xs) xs Hs), (fold_comp_vsum c xs H0 Ha).
  unfold mean. rewrite Hm. assert (N : INR (length xs) <> 0) by (destruct xs; [congruence | apply not_0_INR; cbn; lia]).
  field. exact N.
Qed.
Lemma pairs_centred : forall al rf, al <> [] -> length al = length rf -> centred (pairs_of al rf).
Proof.
  intros al rf Hne Hlen. assert (Hne' : rf <> []) by (destruct rf; [destruct al; [congruence | discriminate] | congruence]).
  assert (L : length (centre al) = length (centre rf)) by (unfold centre; rewrite !map_length; exact Hlen).
  unfold centred, sumx, sumy, pairs_of, vzero.
  rewrite !(sumf_combine_fst _ _ _ L), !(sumf_combine_snd _ _ _ L).
  rewrite !centre_sum_zero; try assumption; try reflexivity;
    try (intros [[? ?] ?] [[? ?] ?]; unfold vadd, vsub, vx, vy, vz; cbn [fst snd]; ring);
    try (intros ? [[? ?] ?]; unfold vscale, vx, vy, vz; cbn [fst snd]; ring);
    try (unfold vzero, vx, vy, vz; cbn; reflexivity).
  split; reflexivity.
Qed.

(* --- Trajectory.superpose ------------------------------------------------------------------------- *)
Lemma rowmul_sub : forall r u v, rowmul (vsub u v) r = vsub (rowmul u r) (rowmul v r).
Proof. intros r [[u0 u1] u2] [[v0 v1] v2]. unfold rowmul, vsub, vx, vy, vz. cbn [fst snd]. f_equal; [f_equal|]; ring. Qed.

(* superpose_rigid: all interatomic distances are preserved (for every input, fallback or not) *)
Theorem superpose_rigid : forall al rf lam u v,
  let f := fun x => vadd (rowmul (vsub x (mean al)) (superpose_rot al rf lam)) (mean rf) in
  dist2 (f u) (f v) = dist2 u v.
Proof.
  intros al rf lam u v f. unfold f, dist2.
  pose proof (rot_proper (inp_of (pairs_of al rf) lam)) as [Ho _]. fold (superpose_rot al rf lam) in Ho.
  set (r := superpose_rot al rf lam) in *.
  replace (vsub (vadd (rowmul (vsub u (mean al)) r) (mean rf)) (vadd (rowmul (vsub v (mean al)) r) (mean rf)))
    with (rowmul (vsub u v) r).
  - apply rowmul_norm. exact Ho.
  - rewrite !rowmul_sub. destruct (rowmul u r) as [[a0 a1] a2], (rowmul v r) as [[b0 b1] b2], (rowmul (mean al) r) as [[c0 c1] c2], (mean rf) as [[d0 d1] d2].
    unfold vsub, vadd, vx, vy, vz. cbn [fst snd]. f_equal; [f_equal|]; ring.
Qed.

(* the deviation of the superposed alignment atoms from the reference, measured without further fitting,
   is the residual of the centred pairs under the rotation *)
Lemma superpose_deviation : forall (r : mat9) (m1 m2 : v3) al rf,
  sumf (fun p => dist2 (fst p) (snd p)) (combine (map (fun x => vadd (rowmul (vsub x m1) r) m2) al) rf) =
  resid r vzero (combine (map (fun x => vsub x m1) al) (map (fun x => vsub x m2) rf)).
Proof.
  intros r m1 m2 al. unfold resid. induction al as [|x t IH]; intros [|y rf]; cbn [map combine sumf]; try reflexivity.
  rewrite IH. f_equal. cbn [fst snd]. unfold dist2.
  destruct (rowmul (vsub x m1) r) as [[a0 a1] a2], m2 as [[d0 d1] d2], y as [[y0 y1] y2].
  unfold vnorm2, vsub, vadd, vzero, vx, vy, vz. cbn [fst snd]. ring.
Qed.

(* superpose_attains: after superposition the alignment atoms deviate from the reference by exactly the
   minimal residual (same hypotheses on lam as the headline) *)
Theorem superpose_attains : forall al rf lam, let l := pairs_of al rf in let i := inp_of l lam in
  al <> [] -> length al = length rf -> charpoly i lam = 0 -> dominates i lam -> ~ Rf.fallback i ->
  let dev := sumf (fun p => dist2 (fst p) (snd p)) (combine (superpose al rf al lam) rf) in
  dev = Ga l + Gb l - 2 * lam /\ (forall r t, proper_rotation r -> dev <= resid r t l).
Proof.
  intros al rf lam l i Hne Hlen Hroot Hd Hnf dev.
  assert (E : dev = resid (out_rot i) vzero l).
  { unfold dev, superpose, superpose_rot. fold l. fold i. rewrite superpose_deviation. reflexivity. }
  rewrite E. split.
  - apply (code_attains l lam Hroot Hnf).
  - intros r t Hr. unfold i. rewrite (code_attains l lam Hroot Hnf). apply optimal_all_rotations; try assumption.
    apply pairs_centred; assumption.
Qed.
