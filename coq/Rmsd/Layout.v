(* C06 -- the memory layout and loop structure of the SIMD kernels (theobald_rmsd_sse.h:msd_atom_major,
   rotation_sse.h:rot_atom_major, center_sse.h:inplace_center_and_trace_atom_major).  Definitions only.

   Conformations are flat buffers x0 y0 z0 x1 y1 z1 ... (atom major, no padding: ALIGNED is not defined in the build).
   MD.Gen.RmsdLayout (regenerated from the three sources on every run) holds the iteration counts, the mask table of
   the last block, the (mask index, offset) pairs of the _mm_set_ps loads and the block/remainder split of the other
   two kernels.  A read outside the buffer is None (never a default value).
   The four lanes of a block are taken to be summed exactly (lane order and REDUCTION_EPILOGUE are irrelevant to an
   exact sum; float32 rounding is outside the model); aos_deinterleaved_loadu is taken to load atoms 4k..4k+3. *)
From Coq Require Import ZArith List Bool Arith.
Import ListNotations.
Require Import MD.Gen.RmsdFormulas MD.Rmsd.Model MD.Gen.RmsdLayout.

Definition rd (buf : list Z) (i : nat) : option Z := nth_error buf i.
Definition atom_at (buf : list Z) (i : nat) : option ZM.v3 :=
  match rd buf (3 * i), rd buf (3 * i + 1), rd buf (3 * i + 2) with
  | Some x, Some y, Some z => Some (x, y, z)
  | _, _, _ => None
  end.

Fixpoint traverse {A B : Type} (f : A -> option B) (l : list A) : option (list B) :=
  match l with
  | [] => Some []
  | a :: t => match f a, traverse f t with Some b, Some bs => Some (b :: bs) | _, _ => None end
  end.

(* --- msd_atom_major ------------------------------------------------------------------------------------ *)
(* one component of one lane of the last block:  mask[m] ? p[off] : 0  with p = buffer + 12 k *)
Definition set_ps_comp (mask : list bool) (reg : nat) (buf : list Z) (k j : nat) : option Z :=
  let '(m, off) := nth j (nth reg Lay.set_ps []) (0, 0)%nat in
  if nth m mask false then rd buf (Lay.msd_stride * k + off) else Some 0%Z.
Definition last_lane (mask : list bool) (reg0 : nat) (buf : list Z) (k j : nat) : option ZM.v3 :=
  match set_ps_comp mask reg0 buf k j, set_ps_comp mask (S reg0) buf k j, set_ps_comp mask (S (S reg0)) buf k j with
  | Some x, Some y, Some z => Some (x, y, z)
  | _, _, _ => None
  end.
Definition pair_opt (x y : option ZM.v3) : option ZM.apair :=
  match x, y with Some u, Some v => Some (u, v) | _, _ => None end.
(* the four (a, b) lane pairs of block k *)
Definition block_pairs (last : bool) (mask : list bool) (a b : list Z) (k : nat) : option (list ZM.apair) :=
  traverse (fun j => if last then pair_opt (last_lane mask 0 a k j) (last_lane mask 3 b k j)
                     else pair_opt (atom_at a (4 * k + j)) (atom_at b (4 * k + j))) [0; 1; 2; 3]%nat.
(* every lane pair the loop multiplies, in loop order (masked lanes are pairs of zero vectors) *)
Definition msd_pairs (n : nat) (a b : list Z) : option (list ZM.apair) :=
  let it := Lay.msd_niters n in
  let mask := nth (Lay.msd_mask_row n) Lay.masks [] in
  option_map (@concat ZM.apair) (traverse (fun k => block_pairs (Lay.msd_last k it) mask a b k) (seq 0 it)).
(* M as handed to msdFromMandG: M[3*i+j] = sum over the lanes of a_i * b_j *)
Definition M_of (l : list ZM.apair) : list Z :=
  [ZM.Mab ZM.vx ZM.vx l; ZM.Mab ZM.vx ZM.vy l; ZM.Mab ZM.vx ZM.vz l;
   ZM.Mab ZM.vy ZM.vx l; ZM.Mab ZM.vy ZM.vy l; ZM.Mab ZM.vy ZM.vz l;
   ZM.Mab ZM.vz ZM.vx l; ZM.Mab ZM.vz ZM.vy l; ZM.Mab ZM.vz ZM.vz l].
Definition msd_M (n : nat) (a b : list Z) : option (list Z) := option_map M_of (msd_pairs n a b).

(* --- the specification side: atoms of a buffer of 3 n numbers ------------------------------------------- *)
Definition unflat_atom (buf : list Z) (i : nat) : ZM.v3 :=
  (nth (3 * i) buf 0%Z, nth (3 * i + 1) buf 0%Z, nth (3 * i + 2) buf 0%Z).
Definition pair_at (a b : list Z) (i : nat) : ZM.apair := (unflat_atom a i, unflat_atom b i).
Definition pairs_spec (n : nat) (a b : list Z) : list ZM.apair := map (pair_at a b) (seq 0 n).
Definition zero_pair : ZM.apair := ((0, 0, 0)%Z, (0, 0, 0)%Z).

(* --- rot_atom_major / inplace_center_and_trace_atom_major: which atoms the loops touch, in order -------- *)
Definition block_atoms (k : nat) : list nat := [4 * k; 4 * k + 1; 4 * k + 2; 4 * k + 3]%nat.
(* SIMD blocks, then the scalar epilogue on the pointer advanced by 12 per block: a[3*k + c] is atom 4*blocks + k *)
Definition visited (blocks tail : nat) : list nat :=
  flat_map block_atoms (seq 0 blocks) ++ map (fun k => (4 * blocks + k)%nat) (seq 0 tail).
Definition rot_visited (n : nat) : list nat := visited (Lay.rot_blocks n) (Lay.rot_tail n).
Definition center_visited1 (n : nat) : list nat := visited (Lay.center_blocks1 n) (Lay.center_tail1 n).
Definition center_visited2 (n : nat) : list nat := visited (Lay.center_blocks2 n) (Lay.center_tail2 n).
(* the atoms rot_atom_major rewrites, each replaced by (row vector) x rot; None if a read leaves the buffer *)
Definition rot_buffer (n : nat) (a : list Z) (r0 r1 r2 r3 r4 r5 r6 r7 r8 : Z) : option (list (nat * ZM.v3)) :=
  traverse (fun i => option_map (fun x => (i, ZM.rowmul x r0 r1 r2 r3 r4 r5 r6 r7 r8)) (atom_at a i)) (rot_visited n).

(* frame k of a trajectory buffer: the pointer &xyz[k, 0, 0] *)
Definition frame_ptr (n k : nat) (buf : list Z) : list Z := skipn (Lay.center_frame_offset k n) buf.

(* --- entry point of the correspondence: (n, a, b) -> M and the traces of the lane pairs ----------------- *)
Definition layout_case (c : nat * list Z * list Z) : option (list Z) :=
  let '(n, a, b) := c in
  match msd_pairs n a b with
  | Some l => Some (M_of l ++ [ZM.Ga l; ZM.Gb l; Z.of_nat (length l)])
  | None => None
  end.
Definition olist_eqb (x y : option (list Z)) : bool :=
  match x, y with
  | Some u, Some v => (fix go (u v : list Z) : bool :=
                         match u, v with [], [] => true | p :: u', q :: v' => Z.eqb p q && go u' v' | _, _ => false end) u v
  | None, None => true
  | _, _ => false
  end.
(* trace of a (centred) conformation as the second pass of inplace_center_and_trace_atom_major accumulates it *)
Definition trace_buf (n : nat) (buf : list Z) : option Z :=
  option_map (fold_right (fun x s => (ZM.vnorm2 x + s)%Z) 0%Z) (traverse (atom_at buf) (center_visited2 n)).
(* the arguments msd_atom_major hands to msdFromMandG for two centred buffers: M from the lanes, the traces, the
   number of REAL atoms *)
Definition kernel_inp (n : nat) (a b : list Z) (lam qa qb qc qd : Z) : option Zf.inp :=
  match msd_M n a b, trace_buf n a, trace_buf n b with
  | Some [m0; m1; m2; m3; m4; m5; m6; m7; m8], Some ga, Some gb =>
      Some (Zf.mkin ga gb (Z.of_nat n) m0 m1 m2 m3 m4 m5 m6 m7 m8 lam qa qb qc qd)
  | _, _, _ => None
  end.
(* characteristic-polynomial coefficients computed from the flat buffers through the kernels' loop structure *)
Definition coeffs_flat (c : nat * list Z * list Z) : option (Z * Z * Z * Z * Z) :=
  let '(n, a, b) := c in
  match kernel_inp n a b 0 0 0 0 0, trace_buf n a, trace_buf n b with
  | Some i, Some ga, Some gb => Some (Zf.out_C_2 i, Zf.out_C_1 i, Zf.out_C_0 i, ga, gb)
  | _, _, _ => None
  end.
Definition ocoeffs_eqb (x y : option (Z * Z * Z * Z * Z)) : bool :=
  match x, y with Some u, Some v => ZM.coeffs_eqb u v | None, None => true | _, _ => false end.
