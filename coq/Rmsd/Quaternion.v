(* C06 -- every proper rotation matrix is the rotation matrix of a unit quaternion (with the formulas
   of theobald_rmsd.cpp).  This is what lets `optimal_given_top` quantify over ALL proper rotations.
   Construction: Shepperd's four cases (the largest of 1+r0+r4+r8, 1+r0-r4-r8, 1-r0+r4-r8, 1-r0-r4+r8
   is at least 1); the polynomial side conditions follow from orthogonality and det = 1 (nsatz). *)
From Coq Require Import Reals Lra Nsatz.
Require Import MD.Rmsd.Model.
Import RM.
Local Open Scope R_scope.

Section Cases.
Variables r0 r1 r2 r3 r4 r5 r6 r7 r8 w : R.
Hypothesis A0 : r0*r0+r1*r1+r2*r2 = 1.
Hypothesis A1 : r3*r3+r4*r4+r5*r5 = 1.
Hypothesis A2 : r6*r6+r7*r7+r8*r8 = 1.
Hypothesis B01: r0*r3+r1*r4+r2*r5 = 0.
Hypothesis B02: r0*r6+r1*r7+r2*r8 = 0.
Hypothesis B12: r3*r6+r4*r7+r5*r8 = 0.
Hypothesis D : r0*(r4*r8-r5*r7) - r1*(r3*r8-r5*r6) + r2*(r3*r7-r4*r6) = 1.
Hypothesis Wn : w <> 0.

Ltac fin W := field_simplify_eq; [|exact Wn];
  repeat match goal with |- context [w ^ 4] => replace (w ^ 4) with ((w*w)*(w*w)) by ring end;
  repeat match goal with |- context [w ^ 2] => replace (w ^ 2) with (w*w) by ring end;
  rewrite ?W; clear W;
  repeat match goal with |- context [?x ^ 2] => replace (x ^ 2) with (x * x) by ring end;
  nsatz.

Definition is_quat (a b c d : R) : Prop :=
  a*a+b*b+c*c+d*d = 1 /\
  r0 = a*a+b*b-c*c-d*d /\ r1 = 2*(b*c-a*d) /\ r2 = 2*(d*b+a*c) /\
  r3 = 2*(b*c+a*d) /\ r4 = a*a-b*b+c*c-d*d /\ r5 = 2*(c*d-a*b) /\
  r6 = 2*(d*b-a*c) /\ r7 = 2*(c*d+a*b) /\ r8 = a*a-b*b-c*c+d*d.

Lemma case0 : w*w = 4*(1+r0+r4+r8) -> is_quat (w/4) ((r7-r5)/w) ((r2-r6)/w) ((r3-r1)/w).
Proof. intros W. unfold is_quat. repeat split; fin W. Qed.
Lemma case1 : w*w = 4*(1+r0-r4-r8) -> is_quat ((r7-r5)/w) (w/4) ((r3+r1)/w) ((r2+r6)/w).
Proof. intros W. unfold is_quat. repeat split; fin W. Qed.
Lemma case2 : w*w = 4*(1-r0+r4-r8) -> is_quat ((r2-r6)/w) ((r3+r1)/w) (w/4) ((r5+r7)/w).
Proof. intros W. unfold is_quat. repeat split; fin W. Qed.
Lemma case3 : w*w = 4*(1-r0-r4+r8) -> is_quat ((r3-r1)/w) ((r2+r6)/w) ((r5+r7)/w) (w/4).
Proof. intros W. unfold is_quat. repeat split; fin W. Qed.
End Cases.

Theorem rotation_is_quaternion : forall r : mat9, proper_rotation r ->
  exists a b c d, a*a+b*b+c*c+d*d = 1 /\ r = Rq a b c d.
Proof.
  intros [r0 r1 r2 r3 r4 r5 r6 r7 r8] [(A0 & A1 & A2 & B01 & B02 & B12) Dt].
  unfold det9, det3 in Dt. cbn [RM.r0 RM.r1 RM.r2 RM.r3 RM.r4 RM.r5 RM.r6 RM.r7 RM.r8] in *.
  assert (Dt' : r0*(r4*r8-r5*r7) - r1*(r3*r8-r5*r6) + r2*(r3*r7-r4*r6) = 1) by lra.
  assert (root : forall t, 1 <= t -> exists w, w <> 0 /\ w * w = 4 * t).
  { intros t Ht. exists (2 * sqrt t). pose proof (sqrt_lt_R0 t ltac:(lra)). split; [lra|].
    replace (2 * sqrt t * (2 * sqrt t)) with (4 * (sqrt t * sqrt t)) by ring. rewrite sqrt_sqrt by lra. ring. }
  assert (fin : forall a b c d, is_quat r0 r1 r2 r3 r4 r5 r6 r7 r8 a b c d ->
                exists a b c d, a*a+b*b+c*c+d*d = 1 /\ M9 r0 r1 r2 r3 r4 r5 r6 r7 r8 = Rq a b c d).
  { intros a b c d (U & E0 & E1 & E2 & E3 & E4 & E5 & E6 & E7 & E8). exists a, b, c, d. split; [exact U|].
    unfold Rq. f_equal; assumption. }
  destruct (Rle_dec 1 (1+r0+r4+r8)) as [H0|H0].
  { destruct (root _ H0) as [w [Wn W]]. eapply fin. eapply (case0 r0 r1 r2 r3 r4 r5 r6 r7 r8 w); eassumption. }
  destruct (Rle_dec 1 (1+r0-r4-r8)) as [H1|H1].
  { destruct (root _ H1) as [w [Wn W]]. eapply fin. eapply (case1 r0 r1 r2 r3 r4 r5 r6 r7 r8 w); eassumption. }
  destruct (Rle_dec 1 (1-r0+r4-r8)) as [H2|H2].
  { destruct (root _ H2) as [w [Wn W]]. eapply fin. eapply (case2 r0 r1 r2 r3 r4 r5 r6 r7 r8 w); eassumption. }
  assert (H3 : 1 <= 1-r0-r4+r8) by lra.
  destruct (root _ H3) as [w [Wn W]]. eapply fin. eapply (case3 r0 r1 r2 r3 r4 r5 r6 r7 r8 w); eassumption.
Qed.
