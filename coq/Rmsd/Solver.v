(* C06 -- the root solvers.  msdFromMandG calls DirectSolve (closed-form quartic, quartic_equation_solve_exact with
   d4 = 1, d3 = 0); NewtonSolve is the alternative in the same file (and the method of alignment.rmsd_qcp).

   * NewtonSolve is NOT called by msdFromMandG (dead code in the library; alignment.rmsd_qcp uses scipy's Newton).
     It is modelled by the Newton map N of P(t) = t^4 + C_2 t^2 + C_1 t + C_0.  Proved: when P has four real roots
     (stated through Vieta's relations) every iterate started at or above the largest root r1 stays at or above r1,
     decreases, and its distance to r1 shrinks by at least 1/4 per step.  That one pass through NewtonSolve's loop
     body (regenerated as MD.Gen.RmsdFormulas.Newton.step) IS this map is checked on every run outside the
     obligations (a change to the unused function must not raise an alarm): see newton_tie in harness/props/C06.py.
   * DirectSolve: HAND model of the branch R <> 0 of quartic_equation_solve_exact (not regenerated: pointer
     arguments).  Proved: if u1 is a root of the resolvent cubic with u1 - C_2 > 0 and both discriminants are
     non-negative (what solve_cubic_equation and real-rootedness deliver) then the returned value is a root of P
     and no real root of P is larger.
   Not proved: solve_cubic_equation itself (pow/acos/cos), and all floating-point effects. *)
From Coq Require Import Reals Lra Lia.
Require Import MD.Gen.RmsdFormulas.
Local Open Scope R_scope.

Section Quartic.
Variables a2 a1 a0 : R.     (* C_2, C_1, C_0 *)
Definition P (t : R) : R := t * t * t * t + a2 * (t * t) + a1 * t + a0.
Definition P' (t : R) : R := 4 * (t * t * t) + 2 * a2 * t + a1.

(* ---------------------------------------------------------------- NewtonSolve *)
(* real-rootedness: the four roots, through Vieta's relations (equivalent to P(t) = prod (t - r_i)) *)
Definition real_rooted (r1 r2 r3 r4 : R) : Prop :=
  r1 + r2 + r3 + r4 = 0 /\
  a2 = r1 * r2 + r1 * r3 + r1 * r4 + r2 * r3 + r2 * r4 + r3 * r4 /\
  a1 = - (r1 * r2 * r3 + r1 * r2 * r4 + r1 * r3 * r4 + r2 * r3 * r4) /\
  a0 = r1 * r2 * r3 * r4.
Lemma real_rooted_factor : forall r1 r2 r3 r4, real_rooted r1 r2 r3 r4 ->
  forall t, P t = (t - r1) * (t - r2) * (t - r3) * (t - r4) /\
            P' t = (t - r2) * (t - r3) * (t - r4) + (t - r1) * (t - r3) * (t - r4) + (t - r1) * (t - r2) * (t - r4) + (t - r1) * (t - r2) * (t - r3).
Proof.
  intros r1 r2 r3 r4 (V1 & V2 & V3 & V4) t. unfold P, P'. rewrite V2, V3, V4.
  replace r4 with (- r1 - r2 - r3) by lra. split; ring.
Qed.

Definition N (t : R) : R := t - P t / P' t.

Lemma newton_contracts : forall r1 r2 r3 r4 t, real_rooted r1 r2 r3 r4 -> r2 <= r1 -> r3 <= r1 -> r4 <= r1 ->
  r1 < t -> 0 < P' t /\ r1 <= N t < t /\ N t - r1 <= 3 / 4 * (t - r1).
Proof.
  intros r1 r2 r3 r4 t HV H2 H3 H4 Ht. destruct (real_rooted_factor _ _ _ _ HV t) as [EP EP'].
  set (d1 := t - r1) in *. set (d2 := t - r2) in *. set (d3 := t - r3) in *. set (d4 := t - r4) in *.
  assert (D1 : 0 < d1) by (unfold d1; lra). assert (D2 : d1 <= d2) by (unfold d1, d2; lra).
  assert (D3 : d1 <= d3) by (unfold d1, d3; lra). assert (D4 : d1 <= d4) by (unfold d1, d4; lra).
  assert (P23 : 0 < d2 * d3) by nra. assert (P24 : 0 < d2 * d4) by nra. assert (P34 : 0 < d3 * d4) by nra.
  assert (P234 : 0 < d2 * d3 * d4) by nra.
  assert (S : 0 < P' t) by (rewrite EP'; nra).
  assert (Q : P t / P' t * P' t = P t) by (field; lra).
  set (q := P t / P' t) in *.
  assert (Up : q <= d1).
  { apply (Rmult_le_reg_r (P' t)); [exact S|]. rewrite Q, EP, EP'. nra. }
  assert (Lo : d1 / 4 <= q).
  { apply (Rmult_le_reg_r (P' t)); [exact S|]. rewrite Q, EP, EP'.
    assert (d1 * (d3 * d4) <= d2 * (d3 * d4)) by (apply Rmult_le_compat_r; lra).
    assert (d1 * (d2 * d4) <= d3 * (d2 * d4)) by (apply Rmult_le_compat_r; lra).
    assert (d1 * (d2 * d3) <= d4 * (d2 * d3)) by (apply Rmult_le_compat_r; lra).
    nra. }
  split; [exact S|]. unfold N. fold q. unfold d1 in *. repeat split; lra.
Qed.

(* iterating: x_0 >= r1  ==>  r1 <= x_n <= x_0  and  x_n - r1 <= (3/4)^n (x_0 - r1) *)
Fixpoint iter (n : nat) (x : R) : R := match n with O => x | S k => N (iter k x) end.
Lemma P_at_root_step : forall r1 r2 r3 r4, real_rooted r1 r2 r3 r4 -> N r1 = r1.
Proof.
  intros r1 r2 r3 r4 HV. destruct (real_rooted_factor _ _ _ _ HV r1) as [EP _]. unfold N. rewrite EP.
  replace ((r1 - r1) * (r1 - r2) * (r1 - r3) * (r1 - r4)) with 0 by ring. unfold Rdiv. ring.
Qed.
Theorem newton_monotone : forall r1 r2 r3 r4 x0 n, real_rooted r1 r2 r3 r4 -> r2 <= r1 -> r3 <= r1 -> r4 <= r1 ->
  r1 <= x0 -> r1 <= iter n x0 <= x0 /\ iter (S n) x0 <= iter n x0 /\ iter n x0 - r1 <= (3 / 4) ^ n * (x0 - r1).
Proof.
  intros r1 r2 r3 r4 x0 n HV H2 H3 H4 H0.
  assert (Step : forall x, r1 <= x -> r1 <= N x <= x /\ N x - r1 <= 3 / 4 * (x - r1)).
  { intros x Hx. destruct (Req_dec x r1) as [->|Hne].
    - rewrite (P_at_root_step _ _ _ _ HV). lra.
    - destruct (newton_contracts r1 r2 r3 r4 x HV H2 H3 H4 ltac:(lra)) as (_ & A & B). lra. }
  induction n as [|n IH].
  - cbn [iter pow]. destruct (Step x0 H0). lra.
  - destruct IH as ((A1 & A2) & A3 & A4). cbn [iter] in *.
    destruct (Step (iter n x0) A1) as ((B1 & B2) & B3).
    destruct (Step (N (iter n x0)) B1) as ((C1 & C2) & C3).
    repeat split; try lra. change ((3 / 4) ^ S n) with (3 / 4 * (3 / 4) ^ n).
    assert (0 <= (3 / 4) ^ n) by (apply pow_le; lra). nra.
Qed.

(* ---------------------------------------------------------------- DirectSolve (hand model, branch R <> 0) *)
(* quartic_equation_solve_exact(d0 = C_0, d1 = C_1, d2 = C_2, d3 = 0, d4 = 1): a3 = 0, resolvent cubic
   u^3 + au2 u^2 + au1 u + au0 with au2 = -a2, au1 = a1*a3 - 4 a0, au0 = 4 a0 a2 - a1^2 - a0 a3^2 *)
Definition resolvent (u : R) : R := u * u * u - a2 * (u * u) - 4 * a0 * u + (4 * a0 * a2 - a1 * a1).
Definition R2 (u : R) : R := u - a2.                       (* 0.25*a3*a3 + u1 - a2 *)
Definition foo1 (u : R) : R := - R2 u - 2 * a2.            (* 0.75*a3*a3 - R2 - 2*a2 *)
Definition foo2 (u : R) : R := (- 2 * a1) / sqrt (R2 u).   (* 0.25*(4*a3*a2 - 8*a1 - a3^3)/R *)
Definition D2 (u : R) : R := foo1 u + foo2 u.
Definition E2 (u : R) : R := foo1 u - foo2 u.
Definition root12 (u : R) : R * R :=
  let Rr := sqrt (R2 u) in
  if Rle_dec 0 (D2 u) then (Rr / 2 - sqrt (D2 u) / 2, Rr / 2 + sqrt (D2 u) / 2) else (Rr / 2, Rr / 2).
Definition root34 (u : R) : R * R :=
  let Rr := sqrt (R2 u) in
  if Rle_dec 0 (E2 u) then (- Rr / 2 - sqrt (E2 u) / 2, - Rr / 2 + sqrt (E2 u) / 2) else (- Rr / 2, - Rr / 2).
(* DirectSolve: result = max(max(max(r1, r2), r3), r4) *)
Definition direct_solve (u : R) : R :=
  Rmax (Rmax (Rmax (fst (root12 u)) (snd (root12 u))) (fst (root34 u))) (snd (root34 u)).

(* Ferrari: with R^2 = u - a2 and u a root of the resolvent, P splits into the two quadratics whose roots the
   code returns *)
Lemma ferrari_factor : forall u, resolvent u = 0 -> 0 < R2 u ->
  forall t, P t = (t * t - sqrt (R2 u) * t + (R2 u - D2 u) / 4) * (t * t + sqrt (R2 u) * t + (R2 u - E2 u) / 4).
Proof.
  intros u Hres Hpos t. pose proof (sqrt_sqrt (R2 u) ltac:(lra)) as SS. pose proof (sqrt_lt_R0 _ Hpos) as SP.
  unfold D2, E2, foo2, foo1 in *. set (Rr := sqrt (R2 u)) in *.
  assert (E : R2 u = Rr * Rr) by lra. unfold P.
  assert (HR : Rr * Rr = u - a2) by (unfold R2 in E; lra).
  unfold resolvent in Hres.
  (* the constant term needs the resolvent, scaled by Rr^2 <> 0 *)
  apply (Rmult_eq_reg_r (Rr * Rr)); [|nra]. rewrite E.
  replace u with (Rr * Rr + a2) in Hres by lra.
  field_simplify_eq; [|lra]. nra.
Qed.

Lemma quadratic_roots : forall b c t, 0 <= b * b - 4 * c -> t * t + b * t + c = 0 ->
  t = (- b - sqrt (b * b - 4 * c)) / 2 \/ t = (- b + sqrt (b * b - 4 * c)) / 2.
Proof.
  intros b c t Hd H. set (s := sqrt (b * b - 4 * c)). assert (SS : s * s = b * b - 4 * c) by (apply sqrt_sqrt; exact Hd).
  assert (Q : (2 * t + b - s) * (2 * t + b + s) = 0) by nra.
  apply Rmult_integral in Q. destruct Q; [right | left]; lra.
Qed.
Lemma quadratic_root_ok : forall b c s, s * s = b * b - 4 * c ->
  let t1 := (- b - s) / 2 in let t2 := (- b + s) / 2 in t1 * t1 + b * t1 + c = 0 /\ t2 * t2 + b * t2 + c = 0.
Proof. intros b c s H. cbv zeta. split; nra. Qed.

(* the value DirectSolve returns is the largest real root of P *)
Theorem direct_solve_top_root : forall u, resolvent u = 0 -> 0 < R2 u -> 0 <= D2 u -> 0 <= E2 u ->
  P (direct_solve u) = 0 /\ forall t, P t = 0 -> t <= direct_solve u.
Proof.
  intros u Hres Hpos HD HE. pose proof (ferrari_factor u Hres Hpos) as F.
  set (Rr := sqrt (R2 u)) in *. pose proof (sqrt_sqrt (R2 u) ltac:(lra)) as SS. fold Rr in SS.
  set (sd := sqrt (D2 u)). set (se := sqrt (E2 u)).
  assert (SD : sd * sd = D2 u) by (apply sqrt_sqrt; exact HD). assert (SE : se * se = E2 u) by (apply sqrt_sqrt; exact HE).
  assert (PD : 0 <= sd) by apply sqrt_pos. assert (PE : 0 <= se) by apply sqrt_pos.
  unfold direct_solve, root12, root34. fold Rr.
  destruct (Rle_dec 0 (D2 u)) as [_|C]; [|lra]. destruct (Rle_dec 0 (E2 u)) as [_|C]; [|lra]. cbn [fst snd]. fold sd se.
  set (t1 := Rr / 2 - sd / 2). set (t2 := Rr / 2 + sd / 2). set (t3 := - Rr / 2 - se / 2). set (t4 := - Rr / 2 + se / 2).
  assert (Z1 : t1 * t1 - Rr * t1 + (R2 u - D2 u) / 4 = 0) by (unfold t1; nra).
  assert (Z2 : t2 * t2 - Rr * t2 + (R2 u - D2 u) / 4 = 0) by (unfold t2; nra).
  assert (Z3 : t3 * t3 + Rr * t3 + (R2 u - E2 u) / 4 = 0) by (unfold t3; nra).
  assert (Z4 : t4 * t4 + Rr * t4 + (R2 u - E2 u) / 4 = 0) by (unfold t4; nra).
  set (m := Rmax (Rmax (Rmax t1 t2) t3) t4).
  assert (M : (m = t1 \/ m = t2 \/ m = t3 \/ m = t4) /\ t1 <= m /\ t2 <= m /\ t3 <= m /\ t4 <= m).
  { unfold m. pose proof (Rmax_l t1 t2). pose proof (Rmax_r t1 t2). pose proof (Rmax_l (Rmax t1 t2) t3).
    pose proof (Rmax_r (Rmax t1 t2) t3). pose proof (Rmax_l (Rmax (Rmax t1 t2) t3) t4). pose proof (Rmax_r (Rmax (Rmax t1 t2) t3) t4).
    split; [|repeat split; lra].
    assert (Cs : forall x y, Rmax x y = x \/ Rmax x y = y) by (intros x y; unfold Rmax; destruct (Rle_dec x y); auto).
    destruct (Cs (Rmax (Rmax t1 t2) t3) t4) as [-> | ->]; [|auto].
    destruct (Cs (Rmax t1 t2) t3) as [-> | ->]; [|auto]. destruct (Cs t1 t2) as [-> | ->]; auto. }
  destruct M as (Mem & L1 & L2 & L3 & L4). split.
  - rewrite F. destruct Mem as [-> | [-> | [-> | ->]]]; [rewrite Z1 | rewrite Z2 | rewrite Z3 | rewrite Z4]; ring.
  - intros t Ht. rewrite F in Ht. apply Rmult_integral in Ht. destruct Ht as [Q|Q].
    + assert (Q' : t * t + (- Rr) * t + (R2 u - D2 u) / 4 = 0) by lra.
      destruct (quadratic_roots (- Rr) ((R2 u - D2 u) / 4) t) as [E|E]; [nra | exact Q' | |].
      * replace (- Rr * - Rr - 4 * ((R2 u - D2 u) / 4)) with (D2 u) in E by nra. fold sd in E. unfold t1 in L1. lra.
      * replace (- Rr * - Rr - 4 * ((R2 u - D2 u) / 4)) with (D2 u) in E by nra. fold sd in E. unfold t2 in L2. lra.
    + destruct (quadratic_roots Rr ((R2 u - E2 u) / 4) t) as [E|E]; [nra | exact Q | |].
      * replace (Rr * Rr - 4 * ((R2 u - E2 u) / 4)) with (E2 u) in E by nra. fold se in E. unfold t3 in L3. lra.
      * replace (Rr * Rr - 4 * ((R2 u - E2 u) / 4)) with (E2 u) in E by nra. fold se in E. unfold t4 in L4. lra.
Qed.
End Quartic.
