(* C06 -- the two variants of the choice of the adjugate column (two-variant rule).

   rot_cur (AS FOUND, theobald_rmsd.cpp): only the first cofactor column of K - lam I is formed and the
   identity is returned when its squared norm is below 1e-11.  The full statement "the rotation attains
   the minimal residual" is FALSE for it: the first column is the zero vector whenever the optimal
   rotation is a half turn (its quaternion has scalar part 0), and its norm is below the absolute
   threshold for small structures.  rot_fix_with (REPAIRED): any non-zero cofactor column. *)
From Coq Require Import Reals List Lra Lia.
Import ListNotations.
Require Import MD.Gen.RmsdFormulas MD.Rmsd.Model MD.Rmsd.AlgebraR MD.Rmsd.Quaternion MD.Rmsd.Optimal.
Import RM.
Local Open Scope R_scope.

(* full theorem for the repaired selection: at a root, ANY cofactor column that is not the zero vector
   yields a proper rotation attaining Ga+Gb-2 lam, which is minimal when lam dominates *)
Theorem superpose_attains_fix : forall l lam j, let i := inp_of l lam in
  centred l -> charpoly i lam = 0 -> dominates i lam -> 0 < n4 (Kcol i lam j) ->
  proper_rotation (rot_fix_with i lam j) /\
  resid (rot_fix_with i lam j) vzero l = Ga l + Gb l - 2 * lam /\
  (forall r t, proper_rotation r -> resid (rot_fix_with i lam j) vzero l <= resid r t l).
Proof.
  intros l lam j i Hc Hroot Hd P. unfold rot_fix_with.
  assert (A : resid (Rq_unit (Kcol i lam j)) vzero l = Ga l + Gb l - 2 * lam)
    by (apply eigen_rotation_attains; [apply Kcol_is_eigvec; exact Hroot | exact P]).
  split; [apply Rq_unit_proper; exact P|]. split; [exact A|].
  intros r t Hr. rewrite A. apply optimal_all_rotations; assumption.
Qed.

(* the as-found selection is correct whenever it does not fall back *)
Theorem superpose_attains_cur_partial : forall l lam, let i := inp_of l lam in
  charpoly i lam = 0 -> ~ n4 (Kcol i lam 0) < 1 / 100000000000 ->
  resid (rot_cur i lam) vzero l = Ga l + Gb l - 2 * lam.
Proof.
  intros l lam i Hroot Hn. unfold rot_cur. destruct (Rlt_dec _ _) as [H|H]; [contradiction|].
  apply eigen_rotation_attains; [apply Kcol_is_eigvec; exact Hroot | lra].
Qed.

(* witness: the six vertices of an octahedron and their image under the half turn about the x axis *)
Definition oct : list apair :=
  [ ((1, 0, 0), (1, 0, 0)); ((-1, 0, 0), (-1, 0, 0)); ((0, 1, 0), (0, -1, 0)); ((0, -1, 0), (0, 1, 0));
    ((0, 0, 1), (0, 0, -1)); ((0, 0, -1), (0, 0, 1)) ].

Ltac oct_compute := unfold oct, inp_of, Rf.mkin, Ga, Gb, Mab, vnorm2, vx, vy, vz; cbn [sumf fst snd].
Ltac small := unfold Rf.mkin; gen_unfold; proj.

(* the inputs of msdFromMandG for the witness, as numerals (keeps the later arithmetic small) *)
Lemma inp_oct : inp_of oct 6 = Rf.mkin 6 6 6 2 0 0 0 (-2) 0 0 0 (-2) 6.
Proof.
  unfold inp_of, natoms, Ga, Gb, Mab, oct, vnorm2, vx, vy, vz. cbn [sumf fst snd length INR]. f_equal; lra.
Qed.
Lemma G_oct : Ga oct = 6 /\ Gb oct = 6.
Proof. unfold Ga, Gb, oct, vnorm2, vx, vy, vz. cbn [sumf fst snd]. split; lra. Qed.

Theorem superpose_attains_cur_refuted : exists l lam, let i := inp_of l lam in
  l <> [] /\ centred l /\ charpoly i lam = 0 /\ dominates i lam /\
  resid (rot_cur i lam) vzero l <> Ga l + Gb l - 2 * lam /\
  (exists j, resid (rot_fix_with i lam j) vzero l = Ga l + Gb l - 2 * lam).
Proof.
  exists oct, 6. cbv zeta. split; [discriminate|]. split; [|split; [|split; [|split]]].
  - unfold centred, sumx, sumy, oct, vzero, vx, vy, vz. cbn [sumf fst snd]. split; f_equal; [f_equal| |f_equal|]; ring.
  - rewrite inp_oct. unfold charpoly. small. ring.
  - intros a b c d U. rewrite inp_oct. unfold qKq. small. nra.
  - destruct G_oct as [-> ->]. rewrite inp_oct.
    assert (Z : n4 (Kcol (Rf.mkin 6 6 6 2 0 0 0 (-2) 0 0 0 (-2) 6) 6 0) = 0).
    { unfold n4, Kcol. cbv [adjcol]. unfold det3. small. ring. }
    unfold rot_cur. destruct (Rlt_dec _ _) as [H|H]; [|rewrite Z in H; lra].
    unfold resid, ident, rowmul, oct, vnorm2, vsub, vadd, vzero, vx, vy, vz. cbn [sumf fst snd r0 r1 r2 r3 r4 r5 r6 r7 r8]. lra.
  - exists 1%nat.
    assert (P : 0 < n4 (Kcol (inp_of oct 6) 6 1)).
    { rewrite inp_oct. unfold n4, Kcol. cbv [adjcol]. unfold det3. small. lra. }
    apply eigen_rotation_attains; [|exact P]. apply Kcol_is_eigvec.
    rewrite inp_oct. unfold charpoly. small. ring.
Qed.

Ltac proj_all := cbn [Rf.G_x Rf.G_y Rf.numAtoms Rf.M0 Rf.M1 Rf.M2 Rf.M3 Rf.M4 Rf.M5 Rf.M6 Rf.M7 Rf.M8 Rf.h_lambda_1] in *.
(* evaluate the generated conditionals on concrete data: case analysis; impossible branches are closed by lra *)
Ltac eval_ifs :=
  repeat (autounfold with rmsdgen_cond in *; repeat progress autounfold with rmsdgen rmsdgen_snap in *; proj_all;
          match goal with
          | |- context [if ?c then _ else _] => destruct c in *
          | H : context [if ?c then _ else _] |- _ => destruct c in *
          end).

(* non-vacuity of the hypotheses of rmsd_optimal_partial / superpose_attains: the octahedron against
   itself (lam = G = 6) is centred, lam is a root and dominates, and the code does not fall back *)
Definition oct_self : list apair := map (fun p => (fst p, fst p)) oct.
Lemma inp_oct_self : inp_of oct_self 6 = Rf.mkin 6 6 6 2 0 0 0 2 0 0 0 2 6.
Proof.
  unfold inp_of, natoms, Ga, Gb, Mab, oct_self, oct, vnorm2, vx, vy, vz. cbn [map sumf fst snd length INR]. f_equal; lra.
Qed.
Lemma optimal_hypotheses_satisfiable : let l := oct_self in let i := inp_of l 6 in
  l <> [] /\ centred l /\ charpoly i 6 = 0 /\ dominates i 6 /\ ~ Rf.fallback i.
Proof.
  cbv zeta. split; [discriminate|]. split; [|split; [|split]].
  - unfold centred, sumx, sumy, oct_self, oct, vzero, vx, vy, vz. cbn [map sumf fst snd]. split; f_equal; [f_equal| |f_equal|]; ring.
  - rewrite inp_oct_self. unfold charpoly. small. ring.
  - intros a b c d U. rewrite inp_oct_self. unfold qKq. small. nra.
  - rewrite inp_oct_self. unfold Rf.fallback, Rf.mkin. eval_ifs.
    all: autounfold with rmsdgen_cond in *; repeat progress autounfold with rmsdgen rmsdgen_snap in *; proj_all.
    all: lra.
Qed.
