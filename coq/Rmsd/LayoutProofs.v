(* C06 -- refinement: the blocked, masked loops of the SIMD kernels visit every atom 0..n-1 exactly once, never read
   outside a buffer of 3 n numbers, and the lane pairs msd_atom_major multiplies are the n atom pairs followed by
   zero pairs -- so the matrix handed to msdFromMandG is the inner-product matrix of Model.v.  Closed proofs. *)
From Coq Require Import ZArith List Bool Arith Lia.
Import ListNotations.
Require Import MD.Gen.RmsdFormulas MD.Rmsd.Model MD.Gen.RmsdLayout MD.Rmsd.Layout.

(* --- generalities ---------------------------------------------------------------------------------------- *)
Lemma traverse_app : forall (A B : Type) (f : A -> option B) l1 l2 r1 r2,
  traverse f l1 = Some r1 -> traverse f l2 = Some r2 -> traverse f (l1 ++ l2) = Some (r1 ++ r2).
Proof.
  intros A B f l1. induction l1 as [|a l1 IH]; intros l2 r1 r2 H1 H2; cbn [traverse app] in *.
  - injection H1 as <-. exact H2.
  - destruct (f a) as [b|]; [|discriminate]. destruct (traverse f l1) as [bs|] eqn:E; [|discriminate].
    injection H1 as <-. rewrite (IH l2 bs r2 eq_refl H2). reflexivity.
Qed.
Lemma traverse_ext_in : forall (A B : Type) (f g : A -> option B) l, (forall a, In a l -> f a = g a) -> traverse f l = traverse g l.
Proof.
  intros A B f g l. induction l as [|a l IH]; intros H; [reflexivity|]. cbn [traverse].
  rewrite (H a (or_introl eq_refl)), IH; [reflexivity | intros x Hx; apply H; right; exact Hx].
Qed.
Lemma traverse_total : forall (A B : Type) (f : A -> option B) (g : A -> B) l, (forall a, In a l -> f a = Some (g a)) ->
  traverse f l = Some (map g l).
Proof.
  intros A B f g l. induction l as [|a l IH]; intros H; [reflexivity|]. cbn [traverse map].
  rewrite (H a (or_introl eq_refl)), IH; [reflexivity | intros x Hx; apply H; right; exact Hx].
Qed.

Lemma rd_some : forall buf i, (i < length buf)%nat -> rd buf i = Some (nth i buf 0%Z).
Proof. intros buf i H. unfold rd. apply nth_error_nth'. exact H. Qed.
Lemma atom_at_some : forall buf n i, length buf = (3 * n)%nat -> (i < n)%nat -> atom_at buf i = Some (unflat_atom buf i).
Proof. intros buf n i L H. unfold atom_at, unflat_atom. rewrite !rd_some by lia. reflexivity. Qed.
Lemma atom_at_none : forall buf n i, length buf = (3 * n)%nat -> (n <= i)%nat -> atom_at buf i = None.
Proof.
  intros buf n i L H. unfold atom_at, rd. assert (E : nth_error buf (3 * i + 2) = None) by (apply nth_error_None; lia).
  rewrite E. destruct (nth_error buf (3 * i)); [destruct (nth_error buf (3 * i + 1))|]; reflexivity.
Qed.

(* --- rot_atom_major / center: blocks + epilogue = every atom once, in order -------------------------------- *)
Lemma flat_map_blocks : forall m s, flat_map block_atoms (seq s m) = seq (4 * s) (4 * m).
Proof.
  induction m as [|m IH]; intros s; [reflexivity|]. cbn [seq flat_map]. rewrite IH.
  replace (4 * S m)%nat with (4 + 4 * m)%nat by lia. replace (4 * S s)%nat with (4 + 4 * s)%nat by lia.
  unfold block_atoms. cbn [seq app Nat.add]. repeat f_equal; lia.
Qed.
Lemma map_add_seq : forall c t s, map (fun k => (c + k)%nat) (seq s t) = seq (c + s) t.
Proof. intros c t. induction t as [|t IH]; intros s; [reflexivity|]. cbn [seq map]. rewrite IH. f_equal. f_equal. lia. Qed.
Lemma visited_seq : forall blocks tail, visited blocks tail = seq 0 (4 * blocks + tail).
Proof.
  intros blocks tail. unfold visited. rewrite flat_map_blocks, seq_app, map_add_seq. f_equal. f_equal. lia.
Qed.
Lemma div_mod_4 : forall n, (4 * (n / 4) + n mod 4 = n)%nat.
Proof. intros n. symmetry. apply (Nat.div_mod n 4). discriminate. Qed.

(* the three loops as read from the sources *)
Theorem rot_visits_each_atom_once : forall n, rot_visited n = seq 0 n.
Proof. intros n. unfold rot_visited, Lay.rot_blocks, Lay.rot_tail. rewrite visited_seq, div_mod_4. reflexivity. Qed.
Theorem center_visits_each_atom_once : forall n, center_visited1 n = seq 0 n /\ center_visited2 n = seq 0 n.
Proof.
  intros n. unfold center_visited1, center_visited2, Lay.center_blocks1, Lay.center_tail1, Lay.center_blocks2, Lay.center_tail2.
  rewrite !visited_seq, div_mod_4. split; reflexivity.
Qed.
(* rot_atom_major on a buffer of n atoms rewrites atom i with (atom i) x rot for i = 0 .. n-1, reading nothing else *)
Theorem rot_buffer_spec : forall n a r0 r1 r2 r3 r4 r5 r6 r7 r8, length a = (3 * n)%nat ->
  rot_buffer n a r0 r1 r2 r3 r4 r5 r6 r7 r8 =
  Some (map (fun i => (i, ZM.rowmul (unflat_atom a i) r0 r1 r2 r3 r4 r5 r6 r7 r8)) (seq 0 n)).
Proof.
  intros n a r0 r1 r2 r3 r4 r5 r6 r7 r8 L. unfold rot_buffer. rewrite rot_visits_each_atom_once.
  apply traverse_total. intros i Hi. apply in_seq in Hi. rewrite (atom_at_some a n i L) by lia. reflexivity.
Qed.
(* ... and asked to rotate more atoms than the buffer holds it reads outside (no silent default) *)
Theorem rot_buffer_overrun : forall n m a r0 r1 r2 r3 r4 r5 r6 r7 r8, length a = (3 * n)%nat -> (n < m)%nat ->
  rot_buffer m a r0 r1 r2 r3 r4 r5 r6 r7 r8 = None.
Proof.
  intros n m a r0 r1 r2 r3 r4 r5 r6 r7 r8 L H. unfold rot_buffer. rewrite rot_visits_each_atom_once.
  assert (G : forall s t, (s <= n < s + t)%nat ->
     traverse (fun i => option_map (fun x => (i, ZM.rowmul x r0 r1 r2 r3 r4 r5 r6 r7 r8)) (atom_at a i)) (seq s t) = None).
  { intros s t. revert s. induction t as [|t IH]; intros s Hs; [lia|]. cbn [seq traverse].
    destruct (Nat.eq_dec s n) as [->|Hn].
    - rewrite (atom_at_none a n n L) by lia. reflexivity.
    - rewrite IH by lia. destruct (option_map _ (atom_at a s)); reflexivity. }
  apply G. lia.
Qed.

Lemma nth_error_skipn' : forall (A : Type) k (l : list A) i, nth_error (skipn k l) i = nth_error l (k + i).
Proof.
  intros A k. induction k as [|k IH]; intros l i; [reflexivity|]. destruct l as [|x l]; cbn [skipn Nat.add nth_error].
  - destruct i; reflexivity.
  - apply IH.
Qed.
(* frame k of a trajectory buffer of F frames of n atoms: &xyz[k,0,0] points at atom 0 of that frame *)
Theorem frame_ptr_atom : forall n k buf i, atom_at (frame_ptr n k buf) i = atom_at buf (n * k + i).
Proof.
  intros n k buf i. unfold frame_ptr, Lay.center_frame_offset, atom_at, rd. rewrite !nth_error_skipn'.
  replace (k * n * 3 + 3 * i)%nat with (3 * (n * k + i))%nat by lia.
  replace (k * n * 3 + (3 * i + 1))%nat with (3 * (n * k + i) + 1)%nat by lia.
  replace (k * n * 3 + (3 * i + 2))%nat with (3 * (n * k + i) + 2)%nat by lia. reflexivity.
Qed.

(* --- msd_atom_major -------------------------------------------------------------------------------------------- *)
Lemma nth_idx : forall (buf : list Z) x y, x = y -> nth x buf 0%Z = nth y buf 0%Z.
Proof. intros buf x y ->. reflexivity. Qed.
Lemma unflat12 : forall buf m j, unflat_atom buf (4 * m + j) =
  (nth (12 * m + 3 * j) buf 0%Z, nth (12 * m + (3 * j + 1)) buf 0%Z, nth (12 * m + (3 * j + 2)) buf 0%Z).
Proof.
  intros buf m j. unfold unflat_atom.
  rewrite (nth_idx buf (3 * (4 * m + j)) (12 * m + 3 * j)), (nth_idx buf (3 * (4 * m + j) + 1) (12 * m + (3 * j + 1))),
          (nth_idx buf (3 * (4 * m + j) + 2) (12 * m + (3 * j + 2))) by lia. reflexivity.
Qed.

Lemma block_full : forall mask a b n k, length a = (3 * n)%nat -> length b = (3 * n)%nat -> (4 * k + 3 < n)%nat ->
  block_pairs false mask a b k = Some (map (fun j => pair_at a b (4 * k + j)) [0; 1; 2; 3]%nat).
Proof.
  intros mask a b n k La Lb H. unfold block_pairs. apply traverse_total. intros j Hj.
  assert (j < 4)%nat by (cbn in Hj; lia).
  rewrite (atom_at_some a n) by lia. rewrite (atom_at_some b n) by lia. reflexivity.
Qed.

Lemma set_ps_on : forall mask reg buf k j m off, nth j (nth reg Lay.set_ps []) (0, 0)%nat = (m, off) -> nth m mask false = true ->
  (12 * k + off < length buf)%nat -> set_ps_comp mask reg buf k j = Some (nth (12 * k + off) buf 0%Z).
Proof. intros mask reg buf k j m off E Hm Hl. unfold set_ps_comp. rewrite E, Hm. unfold Lay.msd_stride. apply rd_some. exact Hl. Qed.
Lemma set_ps_off : forall mask reg buf k j m off, nth j (nth reg Lay.set_ps []) (0, 0)%nat = (m, off) -> nth m mask false = false ->
  set_ps_comp mask reg buf k j = Some 0%Z.
Proof. intros mask reg buf k j m off E Hm. unfold set_ps_comp. rewrite E, Hm. reflexivity. Qed.

(* lane j of the last block: atom 4m+j when the mask bit is set, the zero vector otherwise *)
Lemma last_lane_on : forall mask reg0 buf n m j, (reg0 = 0 \/ reg0 = 3)%nat -> (j < 4)%nat -> nth j mask false = true ->
  length buf = (3 * n)%nat -> (4 * m + j < n)%nat -> last_lane mask reg0 buf m j = Some (unflat_atom buf (4 * m + j)).
Proof.
  intros mask reg0 buf n m j Hr Hj Hm L H. unfold last_lane. rewrite unflat12.
  destruct Hr as [-> | ->]; destruct j as [|[|[|[|j]]]]; try lia;
    (erewrite !set_ps_on; [reflexivity | .. ]; try reflexivity; try exact Hm; lia).
Qed.
Lemma last_lane_off : forall mask reg0 buf m j, (reg0 = 0 \/ reg0 = 3)%nat -> (j < 4)%nat -> nth j mask false = false ->
  last_lane mask reg0 buf m j = Some (0, 0, 0)%Z.
Proof.
  intros mask reg0 buf m j Hr Hj Hm. unfold last_lane.
  destruct Hr as [-> | ->]; destruct j as [|[|[|[|j]]]]; try lia;
    (erewrite !set_ps_off; [reflexivity | .. ]; try reflexivity; exact Hm).
Qed.

Definition prefix_mask (t : nat) : list bool := [Nat.ltb 0 t; Nat.ltb 1 t; Nat.ltb 2 t; Nat.ltb 3 t].
Lemma masks_are_prefixes : forall t, (1 <= t <= 4)%nat -> nth (t mod 4) Lay.masks [] = prefix_mask t.
Proof. intros t H. destruct t as [|[|[|[|[|t]]]]]; try lia; reflexivity. Qed.

Lemma block_last : forall a b n m t, length a = (3 * n)%nat -> length b = (3 * n)%nat -> n = (4 * m + t)%nat -> (1 <= t <= 4)%nat ->
  block_pairs true (prefix_mask t) a b m = Some (map (pair_at a b) (seq (4 * m) t) ++ repeat zero_pair (4 - t)).
Proof.
  intros a b n m t La Lb Hn Ht. unfold block_pairs.
  assert (G : forall j, (j < 4)%nat ->
     pair_opt (last_lane (prefix_mask t) 0 a m j) (last_lane (prefix_mask t) 3 b m j) =
     Some (if Nat.ltb j t then pair_at a b (4 * m + j) else zero_pair)).
  { intros j Hj. assert (Em : nth j (prefix_mask t) false = Nat.ltb j t).
    { destruct j as [|[|[|[|j]]]]; try lia; reflexivity. }
    destruct (Nat.ltb j t) eqn:E.
    - apply Nat.ltb_lt in E. rewrite (last_lane_on _ 0 a n m j), (last_lane_on _ 3 b n m j); auto; lia.
    - rewrite (last_lane_off _ 0 a m j), (last_lane_off _ 3 b m j); auto. }
  cbn [traverse]. rewrite !G by lia.
  destruct t as [|[|[|[|[|t]]]]]; try lia; cbn [Nat.ltb Nat.leb seq map repeat Nat.sub app];
    rewrite ?Nat.add_0_r; repeat f_equal; lia.
Qed.

Lemma concat_blocks : forall a b m s,
  concat (map (fun k => map (fun j => pair_at a b (4 * k + j)) [0; 1; 2; 3]%nat) (seq s m)) = map (pair_at a b) (seq (4 * s) (4 * m)).
Proof.
  intros a b m. induction m as [|m IH]; intros s; [reflexivity|]. cbn [seq map concat]. rewrite IH.
  replace (4 * S m)%nat with (4 + 4 * m)%nat by lia. replace (4 * S s)%nat with (4 + 4 * s)%nat by lia.
  cbn [seq map app Nat.add]. rewrite Nat.add_0_r. repeat f_equal; lia.
Qed.

Lemma split_4 : forall n, (0 < n)%nat -> exists m t, n = (4 * m + t)%nat /\ (1 <= t <= 4)%nat.
Proof.
  intros n H. exists ((n - 1) / 4)%nat, (n - 4 * ((n - 1) / 4))%nat.
  pose proof (Nat.div_mod (n - 1) 4 ltac:(discriminate)) as D. pose proof (Nat.mod_upper_bound (n - 1) 4 ltac:(discriminate)) as U. lia.
Qed.

(* the lane pairs msd_atom_major multiplies and accumulates are the n atom pairs, in order, followed by zero pairs
   (the masked lanes of the last block); no read leaves the two buffers of 3 n numbers *)
Theorem msd_pairs_spec : forall n a b, length a = (3 * n)%nat -> length b = (3 * n)%nat ->
  msd_pairs n a b = Some (pairs_spec n a b ++ repeat zero_pair (4 * Lay.msd_niters n - n)).
Proof.
  intros n a b La Lb. destruct (Nat.eq_dec n 0) as [->|Hn0]; [reflexivity|].
  destruct (split_4 n ltac:(lia)) as (m & t & Hn & Ht). unfold msd_pairs.
  assert (Eit : Lay.msd_niters n = (m + 1)%nat).
  { unfold Lay.msd_niters. subst n. symmetry. apply (Nat.div_unique _ 4 (m + 1) (t - 1)); lia. }
  assert (Erow : nth (Lay.msd_mask_row n) Lay.masks [] = prefix_mask t).
  { unfold Lay.msd_mask_row. rewrite <- (masks_are_prefixes t Ht). f_equal. subst n.
    destruct (Nat.eq_dec t 4) as [->|Ht4].
    - assert (E : ((4 * m + 4) mod 4 = 0)%nat) by (symmetry; apply (Nat.mod_unique _ 4 (m + 1) 0); lia).
      rewrite E. reflexivity.
    - assert (E : ((4 * m + t) mod 4 = t)%nat) by (symmetry; apply (Nat.mod_unique _ 4 m t); lia).
      rewrite E. symmetry. apply Nat.mod_small. lia. }
  rewrite Eit, Erow. replace (m + 1)%nat with (S m) by lia. rewrite seq_S. cbn [Nat.add].
  assert (T : traverse (fun k => block_pairs (Lay.msd_last k (S m)) (prefix_mask t) a b k) (seq 0 m ++ [m]) =
              Some (map (fun k => map (fun j => pair_at a b (4 * k + j)) [0; 1; 2; 3]%nat) (seq 0 m) ++
                    [map (pair_at a b) (seq (4 * m) t) ++ repeat zero_pair (4 - t)])).
  { apply traverse_app.
    - rewrite (traverse_ext_in _ _ _ (fun k => block_pairs false (prefix_mask t) a b k)).
      + apply traverse_total. intros k Hk. apply in_seq in Hk. apply (block_full _ a b n k La Lb). lia.
      + intros k Hk. apply in_seq in Hk. unfold Lay.msd_last.
        replace (k =? S m - 1) with false; [reflexivity|]. symmetry. apply Nat.eqb_neq. lia.
    - cbn [traverse]. unfold Lay.msd_last. replace (m =? S m - 1) with true by (symmetry; apply Nat.eqb_eq; lia).
      rewrite (block_last a b n m t La Lb Hn Ht). reflexivity. }
  rewrite T. cbn [option_map]. f_equal. rewrite concat_app, concat_blocks. cbn [concat]. rewrite app_nil_r.
  replace (4 * S m - n)%nat with (4 - t)%nat by lia.
  unfold pairs_spec. rewrite Hn at 1. rewrite seq_app, map_app, <- app_assoc.
  replace (4 * 0)%nat with 0%nat by lia. replace (0 + 4 * m)%nat with (4 * m)%nat by lia. reflexivity.
Qed.

(* --- what msdFromMandG receives ------------------------------------------------------------------------------- *)
Lemma sumf_app : forall f l1 l2, ZM.sumf f (l1 ++ l2) = (ZM.sumf f l1 + ZM.sumf f l2)%Z.
Proof. intros f l1 l2. induction l1 as [|p l1 IH]; cbn [app ZM.sumf]; [reflexivity | rewrite IH; ring]. Qed.
Lemma sumf_zeros : forall f k, f zero_pair = 0%Z -> ZM.sumf f (repeat zero_pair k) = 0%Z.
Proof. intros f k H. induction k as [|k IH]; cbn [repeat ZM.sumf]; [reflexivity | rewrite H, IH; reflexivity]. Qed.
Lemma Mab_padded : forall f g l k, (f (0, 0, 0) * g (0, 0, 0) = 0)%Z -> ZM.Mab f g (l ++ repeat zero_pair k) = ZM.Mab f g l.
Proof. intros f g l k H. unfold ZM.Mab. rewrite sumf_app, sumf_zeros; [ring | exact H]. Qed.

(* the nine entries of M accumulated over the lanes are the inner products over the n real atom pairs *)
Theorem msd_M_spec : forall n a b, length a = (3 * n)%nat -> length b = (3 * n)%nat ->
  msd_M n a b = Some (M_of (pairs_spec n a b)).
Proof.
  intros n a b La Lb. unfold msd_M. rewrite (msd_pairs_spec n a b La Lb). cbn [option_map]. unfold M_of.
  rewrite !Mab_padded by reflexivity. reflexivity.
Qed.

Lemma trace_buf_spec : forall n buf, length buf = (3 * n)%nat ->
  trace_buf n buf = Some (fold_right (fun x s => (ZM.vnorm2 x + s)%Z) 0%Z (map (unflat_atom buf) (seq 0 n))).
Proof.
  intros n buf L. unfold trace_buf. rewrite (proj2 (center_visits_each_atom_once n)).
  rewrite (traverse_total _ _ (atom_at buf) (unflat_atom buf)); [reflexivity|].
  intros i Hi. apply in_seq in Hi. apply (atom_at_some buf n i L). lia.
Qed.
Lemma Ga_pairs : forall a b l, ZM.Ga (map (pair_at a b) l) = fold_right (fun x s => (ZM.vnorm2 x + s)%Z) 0%Z (map (unflat_atom a) l).
Proof. intros a b l. induction l as [|i l IH]; [reflexivity|]. unfold ZM.Ga in *. cbn [map ZM.sumf fold_right]. rewrite IH. reflexivity. Qed.
Lemma Gb_pairs : forall a b l, ZM.Gb (map (pair_at a b) l) = fold_right (fun x s => (ZM.vnorm2 x + s)%Z) 0%Z (map (unflat_atom b) l).
Proof. intros a b l. induction l as [|i l IH]; [reflexivity|]. unfold ZM.Gb in *. cbn [map ZM.sumf fold_right]. rewrite IH. reflexivity. Qed.

(* for two buffers of n atoms each, msd_atom_major calls msdFromMandG with exactly the input record of Model.v for
   the list of atom pairs (a_i, b_i), i = 0 .. n-1 -- all remainders of n modulo 4 *)
Theorem kernel_inp_spec : forall n a b lam qa qb qc qd, length a = (3 * n)%nat -> length b = (3 * n)%nat ->
  kernel_inp n a b lam qa qb qc qd = Some (ZM.inp_of (pairs_spec n a b) lam qa qb qc qd).
Proof.
  intros n a b lam qa qb qc qd La Lb. unfold kernel_inp.
  rewrite (msd_M_spec n a b La Lb), (trace_buf_spec n a La), (trace_buf_spec n b Lb). unfold M_of, ZM.inp_of.
  unfold pairs_spec at 10 11 12. rewrite Ga_pairs, Gb_pairs, map_length, seq_length. reflexivity.
Qed.

(* a buffer that is too short is detected (None), not read as zeros *)
Example short_buffer_is_an_error : msd_pairs 5 [1; 2; 3; 4; 5; 6; 7; 8; 9; 10; 11; 12; 13; 14]%Z [1; 2; 3; 4; 5; 6; 7; 8; 9; 10; 11; 12; 13; 14; 15]%Z = None.
Proof. reflexivity. Qed.
