(* C06 -- superposition with separate selections: all atoms are moved rigidly by the transform that is optimal for
   the selected pairs.  Uses Optimal.superpose_attains / superpose_rigid (standard real-number axioms). *)
From Coq Require Import Reals List Arith Lia.
Import ListNotations.
Require Import MD.Gen.RmsdFormulas MD.Rmsd.Model MD.Rmsd.Optimal MD.Rmsd.Selection.
Import RM.
Local Open Scope R_scope.

Lemma select_map : forall (A B : Type) (f : A -> B) idx xs, select idx (map f xs) = option_map (map f) (select idx xs).
Proof.
  intros A B f idx xs. induction idx as [|i idx IH]; [reflexivity|]. cbn [select]. rewrite IH, nth_error_map.
  destruct (nth_error xs i); [|reflexivity]. destruct (select idx xs); reflexivity.
Qed.
Lemma select_length : forall (A : Type) idx (xs r : list A), select idx xs = Some r -> length r = length idx.
Proof.
  intros A idx xs. induction idx as [|i idx IH]; intros r H; cbn [select] in H; [injection H as <-; reflexivity|].
  destruct (nth_error xs i); [|discriminate]. destruct (select idx xs) eqn:E; [|discriminate]. injection H as <-.
  cbn [length]. f_equal. apply IH. reflexivity.
Qed.

Theorem superpose_selection : forall A B mob ref lam al rf,
  select A mob = Some al -> select B ref = Some rf -> al <> [] -> length al = length rf ->
  let l := pairs_of al rf in let i := inp_of l lam in
  RM.charpoly i lam = 0 -> dominates i lam -> ~ Rf.fallback i ->
  exists out, superpose_sel A B mob ref lam = Some out /\ length out = length mob /\
    (* rigid: one distance-preserving map applied to every atom of the frame *)
    (exists f, out = map f mob /\ forall u v, dist2 (f u) (f v) = dist2 u v) /\
    (* the selected atoms of the result against the selected reference atoms attain the minimum *)
    exists al', select A out = Some al' /\
      let dev := sumf (fun p => dist2 (fst p) (snd p)) (combine al' rf) in
      dev = Ga l + Gb l - 2 * lam /\ forall r t, proper_rotation r -> dev <= resid r t l.
Proof.
  intros A B mob ref lam al rf HA HB Hne Hlen l i Hroot Hdom Hfb.
  unfold superpose_sel. rewrite HA, HB, Hlen, Nat.eqb_refl. eexists. split; [reflexivity|].
  unfold superpose. split; [apply map_length|]. split.
  - eexists. split; [reflexivity|]. intros u v. apply (Optimal.superpose_rigid al rf lam u v).
  - rewrite select_map, HA. cbn [option_map]. eexists. split; [reflexivity|].
    exact (Optimal.superpose_attains al rf lam Hne Hlen Hroot Hdom Hfb).
Qed.

(* md.rmsd with selections: the kernel sees exactly the selected atoms, paired in the order given, centred *)
Theorem rmsd_selection_pairs : forall A B tgt ref al rf, select A tgt = Some al -> select B ref = Some rf ->
  length A = length B -> rmsd_sel_pairs A B tgt ref = Some (pairs_of al rf) /\ length (pairs_of al rf) = length A.
Proof.
  intros A B tgt ref al rf HA HB HL. unfold rmsd_sel_pairs. rewrite HA, HB.
  pose proof (select_length _ _ _ _ HA) as La. pose proof (select_length _ _ _ _ HB) as Lb.
  replace (length al =? length rf)%nat with true by (symmetry; apply Nat.eqb_eq; lia). split; [reflexivity|].
  unfold pairs_of, centre. etransitivity; [apply combine_length|]. rewrite !map_length. lia.
Qed.
(* an index outside either structure is an error, whatever the other arguments *)
Theorem selection_out_of_range : forall (A : list nat) (xs : list v3) i, In i A -> (length xs <= i)%nat -> select A xs = None.
Proof.
  intros A xs i. induction A as [|j A IH]; intros Hin Hi; [destruct Hin|]. cbn [select]. destruct Hin as [->|Hin].
  - assert (E : nth_error xs i = None) by (apply nth_error_None; exact Hi). rewrite E. reflexivity.
  - rewrite (IH Hin Hi). destruct (nth_error xs j); reflexivity.
Qed.
