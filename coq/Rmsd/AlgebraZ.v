(* C06 -- polynomial identities of the QCP code over Z (closed under the global context).
   Every lemma is about the definitions regenerated from theobald_rmsd.cpp (MD.Gen.RmsdFormulas.Zf):
   a changed sign, index or coefficient in the source breaks the corresponding `ring`. *)
From Coq Require Import ZArith List Lia.
Import ListNotations.
Require Import MD.Gen.RmsdFormulas MD.Rmsd.Model.
Import ZM.
Local Open Scope Z_scope.

Ltac gen_unfold := repeat progress autounfold with rmsdgen rmsdgen_snap.
Ltac proj := cbn [Zf.G_x Zf.G_y Zf.numAtoms Zf.M0 Zf.M1 Zf.M2 Zf.M3 Zf.M4 Zf.M5 Zf.M6 Zf.M7 Zf.M8].

(* --- characteristic polynomial ------------------------------------------------------------- *)
(* det(K - t I) = t^4 + C_2 t^2 + C_1 t + C_0 with the coefficients the code computes *)
Lemma charpoly_Z : forall i t, detK_shift i t = charpoly i t.
Proof. intros. unfold detK_shift, charpoly, det4sym, det3. gen_unfold. ring. Qed.

(* the diagonal of K used for the adjugate is the diagonal used for detK minus the solver's result *)
Lemma shift_consistent_Z : forall i,
  Zf.at_qsqr_k00 i = Zf.at_detK_k00 i - Zf.at_qsqr_lambda i /\ Zf.at_qsqr_k11 i = Zf.at_detK_k11 i - Zf.at_qsqr_lambda i /\
  Zf.at_qsqr_k22 i = Zf.at_detK_k22 i - Zf.at_qsqr_lambda i /\ Zf.at_qsqr_k33 i = Zf.at_detK_k33 i - Zf.at_qsqr_lambda i /\
  Zf.at_qsqr_k01 i = Zf.at_detK_k01 i /\ Zf.at_qsqr_k02 i = Zf.at_detK_k02 i /\ Zf.at_qsqr_k03 i = Zf.at_detK_k03 i /\
  Zf.at_qsqr_k12 i = Zf.at_detK_k12 i /\ Zf.at_qsqr_k13 i = Zf.at_detK_k13 i /\ Zf.at_qsqr_k23 i = Zf.at_detK_k23 i /\
  Zf.at_qsqr_lambda i = Zf.out_lambda i.
Proof. intros. gen_unfold. repeat split; ring. Qed.

(* the hand-written cofactor columns are columns of the adjugate: A . adjcol j = det A . e_j *)
Definition colidx (j : nat) : nat := match j with 0 => 0 | 1 => 1 | 2 => 2 | _ => 3 end%nat.
Lemma adjcol_ok_Z : forall j a00 a01 a02 a03 a11 a12 a13 a22 a23 a33,
  let '(q0, q1, q2, q3) := adjcol j a00 a01 a02 a03 a11 a12 a13 a22 a23 a33 in
  let d := det4sym a00 a01 a02 a03 a11 a12 a13 a22 a23 a33 in
  let e (k : nat) := if Nat.eqb (colidx j) k then d else 0 in
  a00 * q0 + a01 * q1 + a02 * q2 + a03 * q3 = e 0%nat /\ a01 * q0 + a11 * q1 + a12 * q2 + a13 * q3 = e 1%nat /\
  a02 * q0 + a12 * q1 + a22 * q2 + a23 * q3 = e 2%nat /\ a03 * q0 + a13 * q1 + a23 * q2 + a33 * q3 = e 3%nat.
Proof.
  intros j. destruct j as [|[|[|j]]]; intros; cbv [adjcol colidx Nat.eqb det4sym det3]; repeat split; ring.
Qed.

(* the vector the code normalises is a cofactor column of K - lam I *)
Definition is_adjcol (i : Zf.inp) (j : nat) : Prop :=
  (Zf.at_qsqr_q0 i, Zf.at_qsqr_q1 i, Zf.at_qsqr_q2 i, Zf.at_qsqr_q3 i) =
  adjcol j (Zf.at_qsqr_k00 i) (Zf.at_qsqr_k01 i) (Zf.at_qsqr_k02 i) (Zf.at_qsqr_k03 i) (Zf.at_qsqr_k11 i)
           (Zf.at_qsqr_k12 i) (Zf.at_qsqr_k13 i) (Zf.at_qsqr_k22 i) (Zf.at_qsqr_k23 i) (Zf.at_qsqr_k33 i).

Ltac adj_tac := unfold is_adjcol; cbn [adjcol]; unfold det3; gen_unfold;
  repeat match goal with |- context [if ?c then _ else _] => destruct c end;
  repeat (f_equal; try ring).

Lemma gen_q_is_adjcol_Z : forall i, exists j, (j <= 3)%nat /\ is_adjcol i j.
Proof.
  intros i.
  first [ exists 0%nat; split; [lia|]; solve [adj_tac]
        | (* column chosen by comparisons: case analysis over the generated conditionals *)
          unfold is_adjcol; gen_unfold;
          repeat match goal with |- context [if ?c then _ else _] => destruct c end;
          first [ exists 0%nat; split; [lia|]; solve [adj_tac] | exists 1%nat; split; [lia|]; solve [adj_tac]
                | exists 2%nat; split; [lia|]; solve [adj_tac] | exists 3%nat; split; [lia|]; solve [adj_tac] ] ].
Qed.

(* adjugate_eigen: (K - lam I) . q = det(K - lam I) . e_j ; hence at a root of the characteristic
   polynomial, K q = lam q  (q is an eigenvector, possibly the zero vector) *)
Lemma adjugate_eigen_Z : forall i, charpoly i (Zf.out_lambda i) = 0 ->
  let q0 := Zf.at_qsqr_q0 i in let q1 := Zf.at_qsqr_q1 i in let q2 := Zf.at_qsqr_q2 i in let q3 := Zf.at_qsqr_q3 i in
  let lam := Zf.out_lambda i in
  Zf.at_detK_k00 i * q0 + Zf.at_detK_k01 i * q1 + Zf.at_detK_k02 i * q2 + Zf.at_detK_k03 i * q3 = lam * q0 /\
  Zf.at_detK_k01 i * q0 + Zf.at_detK_k11 i * q1 + Zf.at_detK_k12 i * q2 + Zf.at_detK_k13 i * q3 = lam * q1 /\
  Zf.at_detK_k02 i * q0 + Zf.at_detK_k12 i * q1 + Zf.at_detK_k22 i * q2 + Zf.at_detK_k23 i * q3 = lam * q2 /\
  Zf.at_detK_k03 i * q0 + Zf.at_detK_k13 i * q1 + Zf.at_detK_k23 i * q2 + Zf.at_detK_k33 i * q3 = lam * q3.
Proof.
  intros i Hroot. cbv zeta.
  destruct (gen_q_is_adjcol_Z i) as [j [Hj Hq]].
  destruct (shift_consistent_Z i) as (E00 & E11 & E22 & E33 & E01 & E02 & E03 & E12 & E13 & E23 & EL).
  rewrite <- charpoly_Z in Hroot. unfold detK_shift in Hroot.
  rewrite EL in *.
  pose proof (adjcol_ok_Z j (Zf.at_qsqr_k00 i) (Zf.at_qsqr_k01 i) (Zf.at_qsqr_k02 i) (Zf.at_qsqr_k03 i) (Zf.at_qsqr_k11 i)
           (Zf.at_qsqr_k12 i) (Zf.at_qsqr_k13 i) (Zf.at_qsqr_k22 i) (Zf.at_qsqr_k23 i) (Zf.at_qsqr_k33 i)) as A.
  unfold is_adjcol in Hq. rewrite <- Hq in A. cbv zeta in A.
  rewrite E00, E11, E22, E33, E01, E02, E03, E12, E13, E23 in A.
  rewrite Hroot in A.
  assert (Z0 : forall b : bool, (if b then 0 else 0) = 0) by (intros []; reflexivity).
  rewrite !Z0 in A. destruct A as (A0 & A1 & A2 & A3).
  repeat split; lia.
Qed.

(* --- the rotation matrix as a function of the quaternion ------------------------------------- *)
(* rot^T rot = |q|^4 I and det rot = |q|^6 for every quaternion (no unit-norm assumption) *)
Lemma rot_orthogonal_Z : forall i, let n := qnorm2 i in
  Zf.out_rot0 i * Zf.out_rot0 i + Zf.out_rot1 i * Zf.out_rot1 i + Zf.out_rot2 i * Zf.out_rot2 i = n * n /\
  Zf.out_rot3 i * Zf.out_rot3 i + Zf.out_rot4 i * Zf.out_rot4 i + Zf.out_rot5 i * Zf.out_rot5 i = n * n /\
  Zf.out_rot6 i * Zf.out_rot6 i + Zf.out_rot7 i * Zf.out_rot7 i + Zf.out_rot8 i * Zf.out_rot8 i = n * n /\
  Zf.out_rot0 i * Zf.out_rot3 i + Zf.out_rot1 i * Zf.out_rot4 i + Zf.out_rot2 i * Zf.out_rot5 i = 0 /\
  Zf.out_rot0 i * Zf.out_rot6 i + Zf.out_rot1 i * Zf.out_rot7 i + Zf.out_rot2 i * Zf.out_rot8 i = 0 /\
  Zf.out_rot3 i * Zf.out_rot6 i + Zf.out_rot4 i * Zf.out_rot7 i + Zf.out_rot5 i * Zf.out_rot8 i = 0.
Proof. intros. unfold n, qnorm2. gen_unfold. repeat split; ring. Qed.

Lemma rot_det_Z : forall i, let n := qnorm2 i in
  det3 (Zf.out_rot0 i) (Zf.out_rot1 i) (Zf.out_rot2 i) (Zf.out_rot3 i) (Zf.out_rot4 i) (Zf.out_rot5 i)
       (Zf.out_rot6 i) (Zf.out_rot7 i) (Zf.out_rot8 i) = n * n * n.
Proof. intros. unfold n, qnorm2, det3. gen_unfold. ring. Qed.

(* sum_k rot[k] * M[k] = q^T K q : the overlap after rotation is the quadratic form of K *)
Lemma rotM_is_qKq_Z : forall i,
  Zf.out_rot0 i * Zf.M0 i + Zf.out_rot1 i * Zf.M1 i + Zf.out_rot2 i * Zf.M2 i + Zf.out_rot3 i * Zf.M3 i +
  Zf.out_rot4 i * Zf.M4 i + Zf.out_rot5 i * Zf.M5 i + Zf.out_rot6 i * Zf.M6 i + Zf.out_rot7 i * Zf.M7 i +
  Zf.out_rot8 i * Zf.M8 i = qKq i (Zf.out_q0 i) (Zf.out_q1 i) (Zf.out_q2 i) (Zf.out_q3 i).
Proof. intros. unfold qKq. gen_unfold. ring. Qed.

(* --- residual identity (induction over the atoms) --------------------------------------------- *)
Lemma sumf_ext : forall f g l, (forall p, f p = g p) -> sumf f l = sumf g l.
Proof. intros f g l H. induction l as [|p t IH]; cbn [sumf]; [reflexivity | rewrite H, IH; reflexivity]. Qed.
Lemma sumf_add : forall f g l, sumf (fun p => f p + g p) l = sumf f l + sumf g l.
Proof. intros. induction l as [|p t IH]; cbn [sumf]; [reflexivity | rewrite IH; ring]. Qed.
Lemma sumf_scal : forall c f l, sumf (fun p => c * f p) l = c * sumf f l.
Proof. intros. induction l as [|p t IH]; cbn [sumf]; [ring | rewrite IH; ring]. Qed.
Lemma sumf_map_same : forall f g l, (forall p, f (g p) = f p) -> sumf f (map g l) = sumf f l.
Proof. intros f g l H. induction l as [|p t IH]; cbn [map sumf]; [reflexivity | rewrite H, IH; reflexivity]. Qed.
Lemma sumf_nonneg : forall f l, (forall p, 0 <= f p) -> 0 <= sumf f l.
Proof. intros f l H. induction l as [|p t IH]; cbn [sumf]; [lia | specialize (H p); lia]. Qed.

(* the rotation only depends on the quaternion; matrix entries, traces and K are additive over atoms *)
Definition Rqz (a b c d : Z) (x : v3) : v3 :=
  rowmul x (a * a + b * b - c * c - d * d) (2 * (b * c - a * d)) (2 * (d * b + a * c))
           (2 * (b * c + a * d)) (a * a - b * b + c * c - d * d) (2 * (c * d - a * b))
           (2 * (d * b - a * c)) (2 * (c * d + a * b)) (a * a - b * b - c * c + d * d).
Lemma rot_of_inp : forall l lam qa qb qc qd x, rot_of (inp_of l lam qa qb qc qd) x = Rqz qa qb qc qd x.
Proof. intros. unfold rot_of, Rqz, inp_of, Zf.mkin. gen_unfold. reflexivity. Qed.
Definition qKqM (m0 m1 m2 m3 m4 m5 m6 m7 m8 a b c d : Z) : Z :=
  qKq (Zf.mkin 0 0 0 m0 m1 m2 m3 m4 m5 m6 m7 m8 0 0 0 0 0) a b c d.
Lemma qKq_inp : forall l lam qa qb qc qd a b c d,
  qKq (inp_of l lam qa qb qc qd) a b c d =
  qKqM (Mab vx vx l) (Mab vx vy l) (Mab vx vz l) (Mab vy vx l) (Mab vy vy l) (Mab vy vz l) (Mab vz vx l) (Mab vz vy l) (Mab vz vz l) a b c d.
Proof. intros. unfold qKqM, qKq, inp_of, Zf.mkin. gen_unfold. reflexivity. Qed.

Lemma resid_identity_Z : forall l lam qa qb qc qd,
  let i := inp_of l lam qa qb qc qd in let n := qa * qa + qb * qb + qc * qc + qd * qd in
  resid i n l = n * n * (Ga l + Gb l) - 2 * n * qKq i qa qb qc qd.
Proof.
  intros l lam qa qb qc qd. cbv zeta. rewrite qKq_inp.
  set (n := qa * qa + qb * qb + qc * qc + qd * qd).
  transitivity (sumf (fun p => vnorm2 (vsub (Rqz qa qb qc qd (fst p)) (n * vx (snd p), n * vy (snd p), n * vz (snd p)))) l).
  { unfold resid. apply sumf_ext. intros p. rewrite rot_of_inp. reflexivity. }
  induction l as [|[x y] t IH].
  - unfold Ga, Gb, Mab, qKqM, qKq, Zf.mkin. cbn [sumf]. gen_unfold. proj. ring.
  - cbn [sumf]. rewrite IH. destruct x as [[x0 x1] x2], y as [[y0 y1] y2].
    unfold Ga, Gb, Mab, qKqM, qKq, Rqz, rowmul, vnorm2, vsub, vx, vy, vz, Zf.mkin, n. cbn [sumf fst snd].
    gen_unfold. proj. ring.
Qed.

(* eigen_upper_bound: n * q^T K q <= n^2 (Ga + Gb) / 2 for every (integer) quaternion *)
Lemma eigen_upper_bound_Z : forall l lam qa qb qc qd,
  let i := inp_of l lam qa qb qc qd in let n := qa * qa + qb * qb + qc * qc + qd * qd in
  2 * n * qKq i qa qb qc qd <= n * n * (Ga l + Gb l).
Proof.
  intros. pose proof (resid_identity_Z l lam qa qb qc qd) as H. cbv zeta in H. fold i in H. fold n in H.
  assert (0 <= resid i n l).
  { unfold resid. apply sumf_nonneg. intros p. unfold vnorm2.
    pose proof (Z.square_nonneg (vx (vsub (rot_of i (fst p)) (n * vx (snd p), n * vy (snd p), n * vz (snd p))))).
    pose proof (Z.square_nonneg (vy (vsub (rot_of i (fst p)) (n * vx (snd p), n * vy (snd p), n * vz (snd p))))).
    pose proof (Z.square_nonneg (vz (vsub (rot_of i (fst p)) (n * vx (snd p), n * vy (snd p), n * vz (snd p))))).
    lia. }
  lia.
Qed.

(* --- symmetry: exchanging the two conformations transposes M and leaves the polynomial unchanged -- *)
Definition swap (p : apair) : apair := (snd p, fst p).
Lemma Mab_swap : forall a b l, Mab a b (map swap l) = Mab b a l.
Proof. intros. unfold Mab. induction l as [|p t IH]; cbn [map sumf]; [reflexivity|]. rewrite IH. unfold swap. cbn [fst snd]. ring. Qed.
Lemma symmetric_Z : forall l,
  coeffs (map swap l) = (let '(c2, c1, c0, ga, gb) := coeffs l in (c2, c1, c0, gb, ga)).
Proof.
  intros. unfold coeffs, inp_of. rewrite !Mab_swap.
  assert (Ga (map swap l) = Gb l) as -> by (unfold Ga, Gb; induction l as [|p t IH]; cbn [map sumf]; [reflexivity | rewrite IH; reflexivity]).
  assert (Gb (map swap l) = Ga l) as -> by (unfold Ga, Gb; induction l as [|p t IH]; cbn [map sumf]; [reflexivity | rewrite IH; reflexivity]).
  rewrite map_length. unfold Zf.mkin. gen_unfold. proj.
  repeat match goal with |- (_, _) = (_, _) => apply f_equal2 end; try reflexivity; ring.
Qed.

(* --- rotation invariance: rotating either conformation by the rotation of a quaternion p scales the
       coefficients by powers of |p|^2, i.e. leaves them unchanged for unit p ----------------------- *)
Definition rotx (a b c d : Z) (p : apair) : apair := (Rqz a b c d (fst p), snd p).
Definition roty (a b c d : Z) (p : apair) : apair := (fst p, Rqz a b c d (snd p)).

Definition C2of (m0 m1 m2 m3 m4 m5 m6 m7 m8 : Z) : Z := Zf.out_C_2 (Zf.mkin 0 0 0 m0 m1 m2 m3 m4 m5 m6 m7 m8 0 0 0 0 0).
Definition C1of (m0 m1 m2 m3 m4 m5 m6 m7 m8 : Z) : Z := Zf.out_C_1 (Zf.mkin 0 0 0 m0 m1 m2 m3 m4 m5 m6 m7 m8 0 0 0 0 0).
Definition C0of (m0 m1 m2 m3 m4 m5 m6 m7 m8 : Z) : Z := Zf.out_C_0 (Zf.mkin 0 0 0 m0 m1 m2 m3 m4 m5 m6 m7 m8 0 0 0 0 0).

Lemma coeffs_only_M : forall l,
  coeffs l = (C2of (Mab vx vx l) (Mab vx vy l) (Mab vx vz l) (Mab vy vx l) (Mab vy vy l) (Mab vy vz l) (Mab vz vx l) (Mab vz vy l) (Mab vz vz l),
              C1of (Mab vx vx l) (Mab vx vy l) (Mab vx vz l) (Mab vy vx l) (Mab vy vy l) (Mab vy vz l) (Mab vz vx l) (Mab vz vy l) (Mab vz vz l),
              C0of (Mab vx vx l) (Mab vx vy l) (Mab vx vz l) (Mab vy vx l) (Mab vy vy l) (Mab vy vz l) (Mab vz vx l) (Mab vz vy l) (Mab vz vz l),
              Ga l, Gb l).
Proof. intros. unfold coeffs, C2of, C1of, C0of, inp_of, Zf.mkin. gen_unfold. proj. reflexivity. Qed.

Section RotInv.
Variables a b c d : Z.
Let r0 := a * a + b * b - c * c - d * d.  Let r1 := 2 * (b * c - a * d).  Let r2 := 2 * (d * b + a * c).
Let r3 := 2 * (b * c + a * d).  Let r4 := a * a - b * b + c * c - d * d.  Let r5 := 2 * (c * d - a * b).
Let r6 := 2 * (d * b - a * c).  Let r7 := 2 * (c * d + a * b).  Let r8 := a * a - b * b - c * c + d * d.
Let n := a * a + b * b + c * c + d * d.

Lemma Mab_rotx : forall (g : v3 -> Z) l,
  Mab vx g (map (rotx a b c d) l) = r0 * Mab vx g l + r3 * Mab vy g l + r6 * Mab vz g l /\
  Mab vy g (map (rotx a b c d) l) = r1 * Mab vx g l + r4 * Mab vy g l + r7 * Mab vz g l /\
  Mab vz g (map (rotx a b c d) l) = r2 * Mab vx g l + r5 * Mab vy g l + r8 * Mab vz g l.
Proof.
  intros. unfold Mab. induction l as [|p t IH]; cbn [map sumf]; [repeat split; ring|].
  destruct IH as (I0 & I1 & I2). rewrite I0, I1, I2.
  unfold rotx, Rqz, rowmul, vx, vy, vz, r0, r1, r2, r3, r4, r5, r6, r7, r8. cbn [fst snd]. repeat split; ring.
Qed.
Lemma Mab_roty : forall (g : v3 -> Z) l,
  Mab g vx (map (roty a b c d) l) = r0 * Mab g vx l + r3 * Mab g vy l + r6 * Mab g vz l /\
  Mab g vy (map (roty a b c d) l) = r1 * Mab g vx l + r4 * Mab g vy l + r7 * Mab g vz l /\
  Mab g vz (map (roty a b c d) l) = r2 * Mab g vx l + r5 * Mab g vy l + r8 * Mab g vz l.
Proof.
  intros. unfold Mab. induction l as [|p t IH]; cbn [map sumf]; [repeat split; ring|].
  destruct IH as (I0 & I1 & I2). rewrite I0, I1, I2.
  unfold roty, Rqz, rowmul, vx, vy, vz, r0, r1, r2, r3, r4, r5, r6, r7, r8. cbn [fst snd]. repeat split; ring.
Qed.

Lemma coeff_rot_left : forall m0 m1 m2 m3 m4 m5 m6 m7 m8,
  let m0' := r0 * m0 + r3 * m3 + r6 * m6 in let m1' := r0 * m1 + r3 * m4 + r6 * m7 in let m2' := r0 * m2 + r3 * m5 + r6 * m8 in
  let m3' := r1 * m0 + r4 * m3 + r7 * m6 in let m4' := r1 * m1 + r4 * m4 + r7 * m7 in let m5' := r1 * m2 + r4 * m5 + r7 * m8 in
  let m6' := r2 * m0 + r5 * m3 + r8 * m6 in let m7' := r2 * m1 + r5 * m4 + r8 * m7 in let m8' := r2 * m2 + r5 * m5 + r8 * m8 in
  C2of m0' m1' m2' m3' m4' m5' m6' m7' m8' = n * n * C2of m0 m1 m2 m3 m4 m5 m6 m7 m8 /\
  C1of m0' m1' m2' m3' m4' m5' m6' m7' m8' = n * n * n * C1of m0 m1 m2 m3 m4 m5 m6 m7 m8 /\
  C0of m0' m1' m2' m3' m4' m5' m6' m7' m8' = n * n * n * n * C0of m0 m1 m2 m3 m4 m5 m6 m7 m8.
Proof.
  intros. unfold m0', m1', m2', m3', m4', m5', m6', m7', m8', C2of, C1of, C0of, Zf.mkin. gen_unfold. proj.
  unfold r0, r1, r2, r3, r4, r5, r6, r7, r8, n. repeat split; ring.
Qed.
Lemma coeff_rot_right : forall m0 m1 m2 m3 m4 m5 m6 m7 m8,
  let m0' := r0 * m0 + r3 * m1 + r6 * m2 in let m1' := r1 * m0 + r4 * m1 + r7 * m2 in let m2' := r2 * m0 + r5 * m1 + r8 * m2 in
  let m3' := r0 * m3 + r3 * m4 + r6 * m5 in let m4' := r1 * m3 + r4 * m4 + r7 * m5 in let m5' := r2 * m3 + r5 * m4 + r8 * m5 in
  let m6' := r0 * m6 + r3 * m7 + r6 * m8 in let m7' := r1 * m6 + r4 * m7 + r7 * m8 in let m8' := r2 * m6 + r5 * m7 + r8 * m8 in
  C2of m0' m1' m2' m3' m4' m5' m6' m7' m8' = n * n * C2of m0 m1 m2 m3 m4 m5 m6 m7 m8 /\
  C1of m0' m1' m2' m3' m4' m5' m6' m7' m8' = n * n * n * C1of m0 m1 m2 m3 m4 m5 m6 m7 m8 /\
  C0of m0' m1' m2' m3' m4' m5' m6' m7' m8' = n * n * n * n * C0of m0 m1 m2 m3 m4 m5 m6 m7 m8.
Proof.
  intros. unfold m0', m1', m2', m3', m4', m5', m6', m7', m8', C2of, C1of, C0of, Zf.mkin. gen_unfold. proj.
  unfold r0, r1, r2, r3, r4, r5, r6, r7, r8, n. repeat split; ring.
Qed.

Lemma G_rot : forall (sel : apair -> v3) (f : apair -> apair) l,
  (forall p, sel (f p) = Rqz a b c d (sel p)) ->
  sumf (fun p => vnorm2 (sel p)) (map f l) = n * n * sumf (fun p => vnorm2 (sel p)) l.
Proof.
  intros sel f l H. induction l as [|p t IH]; cbn [map sumf]; [ring|]. rewrite IH, H.
  destruct (sel p) as [[x0 x1] x2]. unfold Rqz, rowmul, vnorm2, vx, vy, vz, n. cbn [fst snd]. ring.
Qed.

(* rotation_invariant (first conformation rotated) *)
Lemma rotation_invariant_x_Z : forall l,
  coeffs (map (rotx a b c d) l) =
  (let '(c2, c1, c0, ga, gb) := coeffs l in (n * n * c2, n * n * n * c1, n * n * n * n * c0, n * n * ga, gb)).
Proof.
  intros. rewrite !coeffs_only_M.
  destruct (Mab_rotx vx l) as (X0 & X3 & X6). destruct (Mab_rotx vy l) as (X1 & X4 & X7). destruct (Mab_rotx vz l) as (X2 & X5 & X8).
  rewrite X0, X1, X2, X3, X4, X5, X6, X7, X8.
  destruct (coeff_rot_left (Mab vx vx l) (Mab vx vy l) (Mab vx vz l) (Mab vy vx l) (Mab vy vy l) (Mab vy vz l) (Mab vz vx l) (Mab vz vy l) (Mab vz vz l)) as (E2 & E1 & E0).
  cbv zeta in E2, E1, E0. rewrite E2, E1, E0.
  unfold Ga, Gb. rewrite (G_rot fst (rotx a b c d) l) by reflexivity.
  rewrite (sumf_map_same (fun p => vnorm2 (snd p)) (rotx a b c d) l) by reflexivity.
  reflexivity.
Qed.
(* rotation_invariant (second conformation rotated) *)
Lemma rotation_invariant_y_Z : forall l,
  coeffs (map (roty a b c d) l) =
  (let '(c2, c1, c0, ga, gb) := coeffs l in (n * n * c2, n * n * n * c1, n * n * n * n * c0, ga, n * n * gb)).
Proof.
  intros. rewrite !coeffs_only_M.
  destruct (Mab_roty vx l) as (X0 & X1 & X2). destruct (Mab_roty vy l) as (X3 & X4 & X5). destruct (Mab_roty vz l) as (X6 & X7 & X8).
  rewrite X0, X1, X2, X3, X4, X5, X6, X7, X8.
  destruct (coeff_rot_right (Mab vx vx l) (Mab vx vy l) (Mab vx vz l) (Mab vy vx l) (Mab vy vy l) (Mab vy vz l) (Mab vz vx l) (Mab vz vy l) (Mab vz vz l)) as (E2 & E1 & E0).
  cbv zeta in E2, E1, E0. rewrite E2, E1, E0.
  unfold Ga, Gb. rewrite (G_rot snd (roty a b c d) l) by reflexivity.
  rewrite (sumf_map_same (fun p => vnorm2 (fst p)) (roty a b c d) l) by reflexivity.
  reflexivity.
Qed.
End RotInv.

(* --- self comparison: lam = G is a root and K e0 = G e0 ------------------------------------------ *)
Definition self (xs : list v3) : list apair := map (fun x => (x, x)) xs.
Lemma Mab_self_sym : forall a b xs, Mab a b (self xs) = Mab b a (self xs).
Proof. intros. unfold Mab, self. induction xs as [|x t IH]; cbn [map sumf fst snd]; [reflexivity | rewrite IH; ring]. Qed.
Lemma Ga_self_trace : forall xs, Ga (self xs) = Mab vx vx (self xs) + Mab vy vy (self xs) + Mab vz vz (self xs).
Proof. intros. unfold Ga, Mab, self, vnorm2. induction xs as [|x t IH]; cbn [map sumf fst snd]; [reflexivity | rewrite IH; ring]. Qed.
Lemma Gb_self : forall xs, Gb (self xs) = Ga (self xs).
Proof. intros. unfold Ga, Gb, self. induction xs as [|x t IH]; cbn [map sumf fst snd]; [reflexivity | rewrite IH; ring]. Qed.
Lemma self_root_Z : forall xs lam qa qb qc qd,
  let i := inp_of (self xs) lam qa qb qc qd in
  charpoly i (Ga (self xs)) = 0 /\ Gb (self xs) = Ga (self xs) /\ qKq i 1 0 0 0 = Ga (self xs).
Proof.
  intros. unfold i. repeat split; [| apply Gb_self |].
  - rewrite Ga_self_trace. unfold charpoly, inp_of, Zf.mkin. gen_unfold. proj.
    rewrite (Mab_self_sym vy vx), (Mab_self_sym vz vx), (Mab_self_sym vz vy). ring.
  - rewrite Ga_self_trace. unfold qKq, inp_of, Zf.mkin. gen_unfold. proj. ring.
Qed.

(* --- rigidity: applying the rotation scales every difference vector by |q|^2 --------------------- *)
Lemma superpose_rigid_Z : forall i u v, let n := qnorm2 i in
  vnorm2 (vsub (rot_of i u) (rot_of i v)) = n * n * vnorm2 (vsub u v).
Proof.
  intros i [[u0 u1] u2] [[v0 v1] v2]. unfold qnorm2, rot_of, rowmul, vnorm2, vsub, vx, vy, vz. cbn [fst snd].
  gen_unfold. ring.
Qed.
